#!/usr/bin/env python3
"""tools_seeded.py <srcdir> <name> [props...]
Confirm a seeded change (patch.diff + demo/run.sh + meta.json in <srcdir>) in a scratch worktree of /repo's HEAD and run
the checks against it. Keeps it as /verif/seeded/<name>/ when confirmed. The worktree is removed afterwards."""
import json
import os
import shutil
import subprocess
import sys
import time

VERIF = os.path.dirname(os.path.abspath(__file__))
WT = "/tmp/mutwt-%d" % os.getpid()
OUT = "/tmp/mutout-%d" % os.getpid()


def sh(cmd, **kw):
    return subprocess.run(cmd, shell=True, stdout=subprocess.PIPE, stderr=subprocess.STDOUT, text=True, **kw)


def main():
    src, name = os.path.abspath(sys.argv[1]), sys.argv[2]
    props = sys.argv[3:]
    meta = json.load(open(os.path.join(src, "meta.json")))
    if not props:
        props = meta.get("check_props") or [meta["property"]]
    res = {"name": name, "property": meta["property"], "at_repo_commit": sh("git -C /repo rev-parse --short HEAD").stdout.strip()}
    sh("git -C /repo worktree remove --force %s" % WT)
    r = sh("git -C /repo worktree add -q --detach %s HEAD" % WT)
    try:
        r = sh("git -C %s apply %s" % (WT, os.path.join(src, "patch.diff")))
        if r.returncode != 0:
            sh("git -C %s checkout -- ." % WT)
            r = sh("cd %s && patch -p1 --no-backup-if-mismatch < %s" % (WT, os.path.join(src, "patch.diff")))
        res["applies"] = r.returncode == 0
        if not res["applies"]:
            print("patch does not apply:\n" + r.stdout[-1500:])
            print(json.dumps(res))
            return 1
        b = sh("cd %s && cmake -G Ninja -B _build -DCMAKE_BUILD_TYPE=RelWithDebInfo . >/dev/null 2>&1 && cmake --build _build 2>&1 | tail -3" % WT)
        t = sh("ctest --test-dir %s/_build -j8 --timeout 300 2>&1 | tail -8" % WT)
        failed = [l.split("-")[1].split()[0] for l in t.stdout.splitlines() if l.strip().startswith(tuple("0123456789")) and " - " in l]
        res["suite_failed"] = sorted(failed)
        res["suite_ok"] = sorted(failed) == ["test_dynamic_groups", "test_live_validation"]
        demo = os.path.join(src, "demo", "run.sh")
        sh("chmod +x %s" % demo)
        sh("cmake --build /repo/_build 2>&1 | tail -1")
        d0 = sh("cd %s && ./run.sh /repo" % os.path.join(src, "demo"), timeout=600)
        d1 = sh("cd %s && ./run.sh %s" % (os.path.join(src, "demo"), WT), timeout=600)
        res["demo_clean_exit"] = d0.returncode
        res["demo_patched_exit"] = d1.returncode
        res["confirmed"] = bool(res["suite_ok"] and d0.returncode == 0 and d1.returncode != 0)
        print("suite_ok=%s demo clean=%d patched=%d" % (res["suite_ok"], d0.returncode, d1.returncode))
        if not res["confirmed"]:
            print("clean demo tail:\n" + d0.stdout[-800:])
            print("patched demo tail:\n" + d1.stdout[-800:])
        det = {}
        env = dict(os.environ, VERIF_REPO=WT, VERIF_OUT=OUT)
        for p in props:
            t0 = time.time()
            c = subprocess.run([os.path.join(VERIF, "check"), p, "--tier", "quick"], env=env, stdout=subprocess.PIPE, stderr=subprocess.PIPE, text=True)
            lines = [l for l in (c.stdout + c.stderr).splitlines() if l.startswith(("VIOLATION", "  " + p, "OK ", "MACHINERY", "KNOWN"))]
            det[p] = {"exit": c.returncode, "wall_s": round(time.time() - t0, 1), "lines": [l[:300] for l in lines[:8]]}
            print(p, "exit", c.returncode, "in %.0fs" % (time.time() - t0))
            for l in lines[:6]:
                print("   ", l[:260])
        res["checks"] = det
        res["detected_by"] = sorted(p for p, d in det.items() if d["exit"] == 1 and any(l.startswith("VIOLATION") for l in d["lines"]))
        dst = os.path.join(VERIF, "seeded", name)
        if res["confirmed"]:
            if os.path.realpath(src) != os.path.realpath(dst):
                shutil.rmtree(dst, ignore_errors=True)
                os.makedirs(dst)
                shutil.copy(os.path.join(src, "patch.diff"), dst)
                shutil.copytree(os.path.join(src, "demo"), os.path.join(dst, "demo"), ignore=shutil.ignore_patterns("*.o", "demo_bin", "a.out", "build*"))
            meta["evaluation"] = res
            json.dump(meta, open(os.path.join(dst, "meta.json"), "w"), indent=1)
        print(json.dumps({k: res[k] for k in ("confirmed", "detected_by")}))
    finally:
        sh("git -C /repo worktree remove --force %s" % WT)
        shutil.rmtree(OUT, ignore_errors=True)
        shutil.rmtree(WT, ignore_errors=True)
    return 0


if __name__ == "__main__":
    sys.exit(main())
