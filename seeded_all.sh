#!/bin/bash
# re-evaluate every kept seeded change against the current checks (quick tier); one line per change
cd "$(dirname "$0")"
for d in seeded/*/; do
  n=$(basename $d)
  r=$(python3 tools_seeded.py $d $n 2>&1 | tail -1)
  echo "$n $r"
done
