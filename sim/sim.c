/* Deterministic simulation kernel. See sim.h and DESIGN.md §2-§3.
 *
 * This file is compiled WITHOUT sanitizer instrumentation of any kind (no TSan, no
 * coverage guards): the baton is then invisible to ThreadSanitizer, so that in the TSan
 * variant only the library's own synchronisation creates happens-before edges.
 */
#define _GNU_SOURCE
#include "sim.h"

#include <errno.h>
#include <limits.h>
#include <linux/futex.h>
#include <stdarg.h>
#include <stdatomic.h>
#include <stdio.h>
#include <stdlib.h>
#include <string.h>
#include <sys/syscall.h>
#include <time.h>
#include <unistd.h>

/* ------------------------------------------------------------------ rng */
uint64_t sim_mix64(uint64_t x)
{
	x += 0x9e3779b97f4a7c15ull;
	x = (x ^ (x >> 30)) * 0xbf58476d1ce4e5b9ull;
	x = (x ^ (x >> 27)) * 0x94d049bb133111ebull;
	return x ^ (x >> 31);
}

void sim_rng_seed(struct sim_rng *r, uint64_t seed)
{
	uint64_t z = seed;

	for (int i = 0; i < 4; i++) {
		z += 0x9e3779b97f4a7c15ull;
		uint64_t y = z;

		y = (y ^ (y >> 30)) * 0xbf58476d1ce4e5b9ull;
		y = (y ^ (y >> 27)) * 0x94d049bb133111ebull;
		r->s[i] = y ^ (y >> 31);
	}
}

static inline uint64_t rotl(uint64_t x, int k)
{
	return (x << k) | (x >> (64 - k));
}

uint64_t sim_rng_next(struct sim_rng *r)
{
	uint64_t *s = r->s;
	const uint64_t result = rotl(s[1] * 5, 7) * 9;
	const uint64_t t = s[1] << 17;

	s[2] ^= s[0];
	s[3] ^= s[1];
	s[1] ^= s[2];
	s[0] ^= s[3];
	s[2] ^= t;
	s[3] = rotl(s[3], 45);
	return result;
}

uint64_t sim_rng_below(struct sim_rng *r, uint64_t n)
{
	if (n <= 1)
		return 0;
	/* rejection-free multiply-shift is fine for our purposes (bias < 2^-32 for small n) */
	return (uint64_t)(((__uint128_t)sim_rng_next(r) * n) >> 64);
}

/* ------------------------------------------------------------------ real symbols */
int __real_pthread_create(pthread_t *, const pthread_attr_t *, void *(*)(void *), void *);
int __real_pthread_join(pthread_t, void **);
void __real_pthread_exit(void *) __attribute__((noreturn));
int __real_pthread_rwlock_rdlock(pthread_rwlock_t *);
int __real_pthread_rwlock_wrlock(pthread_rwlock_t *);
int __real_pthread_rwlock_unlock(pthread_rwlock_t *);
int __real_clock_gettime(clockid_t, struct timespec *);
unsigned int __real_sleep(unsigned int);
int __real_pthread_setcancelstate(int, int *);
int __real_pthread_cancel(pthread_t);
int __real_pthread_mutex_lock(pthread_mutex_t *);
int __real_pthread_mutex_unlock(pthread_mutex_t *);
int __real_pthread_cond_wait(pthread_cond_t *, pthread_mutex_t *);
int __real_pthread_cond_timedwait(pthread_cond_t *, pthread_mutex_t *, const struct timespec *);
int __real_pthread_cond_signal(pthread_cond_t *);
int __real_pthread_cond_broadcast(pthread_cond_t *);
int __real_usleep(useconds_t);
int __real_nanosleep(const struct timespec *, struct timespec *);

/* ------------------------------------------------------------------ state */
enum tstate { T_UNUSED = 0, T_RUNNABLE, T_BLOCKED, T_DONE };

struct sim_task {
	int id;
	char name[32];
	pthread_t thr;
	_Atomic int go;
	int state;
	int wait_kind;
	const void *wait_obj;
	uint64_t deadline;
	int woke;
	int cancel_enabled;
	int cancel_pending;
	int cancellable_block;
	int nopreempt;
	void *(*fn)(void *);
	void *arg;
	int is_lib;
	int reaped;
	uint32_t budget;
	uint64_t guards_since;
};

static struct {
	int active;
	struct sim_cfg cfg;
	struct sim_rng sched;
	uint64_t now;
	struct sim_task tasks[SIM_MAX_TASKS];
	int ntasks;
	int live; /* tasks not DONE */
	struct sim_task *cur;
	uint64_t hash, sched_hash, nlog;
	struct sim_event *trace;
	size_t trace_n, trace_cap;
	struct sim_stats st;
	_Atomic int done;
	sim_fatal_fn fatal_fn;
} G;

static __thread struct sim_task *tls_task;

#define BUSYLOOP_GUARDS 400000000ull

/* ------------------------------------------------------------------ futex */
static void futex_wait(_Atomic int *addr, int val)
{
	syscall(SYS_futex, addr, FUTEX_WAIT_PRIVATE, val, NULL, NULL, 0);
}

static void futex_wake(_Atomic int *addr)
{
	syscall(SYS_futex, addr, FUTEX_WAKE_PRIVATE, INT_MAX, NULL, NULL, 0);
}

static void wait_go(struct sim_task *me)
{
	while (atomic_load_explicit(&me->go, memory_order_acquire) == 0)
		futex_wait(&me->go, 0);
	atomic_store_explicit(&me->go, 0, memory_order_relaxed);
}

static void give_go(struct sim_task *t)
{
	atomic_store_explicit(&t->go, 1, memory_order_release);
	futex_wake(&t->go);
}

/* ------------------------------------------------------------------ fatal */
void sim_set_fatal_handler(sim_fatal_fn fn)
{
	G.fatal_fn = fn;
}

void sim_fatal(enum sim_fatal_kind kind, const char *fmt, ...)
{
	char buf[512];
	va_list ap;

	va_start(ap, fmt);
	vsnprintf(buf, sizeof(buf), fmt, ap);
	va_end(ap);
	if (G.fatal_fn)
		G.fatal_fn(kind, buf);
	fprintf(stderr, "sim_fatal kind=%d: %s\n", (int)kind, buf);
	fflush(NULL);
	_exit(3);
}

/* ------------------------------------------------------------------ log */
static inline void fnv(uint64_t *h, uint64_t v)
{
	for (int i = 0; i < 8; i++) {
		*h ^= (v >> (8 * i)) & 0xff;
		*h *= 0x100000001b3ull;
	}
}

void sim_log(uint32_t type, uint64_t a, uint64_t b)
{
	uint32_t tid = tls_task ? (uint32_t)tls_task->id : 0xffff;

	fnv(&G.hash, ((uint64_t)type << 32) | tid);
	fnv(&G.hash, a);
	fnv(&G.hash, b);
	fnv(&G.hash, G.now);
	G.nlog++;
	if (G.cfg.trace) {
		if (G.trace_n == G.trace_cap) {
			G.trace_cap = G.trace_cap ? G.trace_cap * 2 : 4096;
			G.trace = realloc(G.trace, G.trace_cap * sizeof(*G.trace));
			if (!G.trace)
				sim_fatal(SIM_F_INTERNAL, "trace oom");
		}
		struct sim_event *e = &G.trace[G.trace_n++];

		e->type = type;
		e->task = tid;
		e->a = a;
		e->b = b;
		e->t_ns = G.now;
	}
}

uint64_t sim_log_hash(void)
{
	return G.hash;
}
uint64_t sim_sched_hash(void)
{
	return G.sched_hash;
}
uint64_t sim_log_count(void)
{
	return G.nlog;
}
const struct sim_event *sim_trace(size_t *n)
{
	*n = G.trace_n;
	return G.trace;
}
const struct sim_stats *sim_get_stats(void)
{
	G.st.sim_ns_elapsed = G.now - G.cfg.boot_ns;
	return &G.st;
}

/* ------------------------------------------------------------------ scheduler core */
static uint32_t draw_budget(void)
{
	unsigned m = G.cfg.preempt_mean;

	if (!m)
		return 0;
	return 1 + (uint32_t)sim_rng_below(&G.sched, 2ull * m);
}

static struct sim_task *choose(void)
{
	struct sim_task *cand[SIM_MAX_TASKS];
	int n;

	for (;;) {
		n = 0;
		for (int i = 0; i < G.ntasks; i++)
			if (G.tasks[i].state == T_RUNNABLE)
				cand[n++] = &G.tasks[i];
		if (n)
			break;
		uint64_t dl = SIM_NO_DEADLINE;

		for (int i = 0; i < G.ntasks; i++)
			if (G.tasks[i].state == T_BLOCKED && G.tasks[i].deadline < dl)
				dl = G.tasks[i].deadline;
		if (dl == SIM_NO_DEADLINE) {
			char buf[400];
			int o = 0;

			for (int i = 0; i < G.ntasks && o < 350; i++)
				if (G.tasks[i].state == T_BLOCKED)
					o += snprintf(buf + o, sizeof(buf) - o, " %s(kind=%d)", G.tasks[i].name,
						      G.tasks[i].wait_kind);
			sim_fatal(SIM_F_DEADLOCK, "deadlock: no runnable task and no deadline; blocked:%s", buf);
		}
		if (dl > G.now) {
			if (dl > G.cfg.max_sim_ns)
				sim_fatal(SIM_F_SIMTIME, "simulated time limit exceeded");
			G.now = dl;
			G.st.clock_jumps++;
			sim_log(EV_CLOCK, dl, 0);
		}
		for (int i = 0; i < G.ntasks; i++)
			if (G.tasks[i].state == T_BLOCKED && G.tasks[i].deadline <= G.now) {
				G.tasks[i].state = T_RUNNABLE;
				G.tasks[i].woke = SIM_TIMEOUT;
			}
	}
	if (n == 1)
		return cand[0];
	struct sim_task *cur = G.cur;

	if (cur && cur->state == T_RUNNABLE && sim_rng_below(&G.sched, 1000) >= G.cfg.switch_permille)
		return cur;
	return cand[sim_rng_below(&G.sched, (uint64_t)n)];
}

static void count_step(void)
{
	if (++G.st.steps > G.cfg.max_steps)
		sim_fatal(SIM_F_STEPS, "step limit %llu exceeded at t=%llu ns", (unsigned long long)G.cfg.max_steps,
			  (unsigned long long)G.now);
}

/* switch from me (which keeps or has set its own state) to next */
static void switch_to(struct sim_task *me, struct sim_task *next)
{
	if (next == me)
		return;
	G.st.switches++;
	fnv(&G.sched_hash, (uint64_t)next->id);
	sim_log(EV_SWITCH, (uint64_t)next->id, 0);
	G.cur = next;
	give_go(next);
	wait_go(me);
}

void sim_sched_point(void)
{
	struct sim_task *me = tls_task;

	if (!me || me->nopreempt)
		return;
	me->guards_since = 0;
	count_step();
	switch_to(me, choose());
}

void sim_switch_to_task(int id)
{
	struct sim_task *me = tls_task;

	if (!me || id < 0 || id >= G.ntasks || &G.tasks[id] == me)
		return;
	struct sim_task *t = &G.tasks[id];

	if (t->state != T_RUNNABLE)
		return;
	me->guards_since = 0;
	count_step();
	switch_to(me, t);
}

enum sim_wake_reason sim_block(enum sim_wait_kind kind, const void *obj, uint64_t deadline_ns, int cancellable)
{
	struct sim_task *me = tls_task;

	if (!me)
		sim_fatal(SIM_F_INTERNAL, "sim_block outside task");
	if (cancellable && me->cancel_pending && me->cancel_enabled)
		return SIM_CANCELLED;
	me->guards_since = 0;
	count_step();
	me->state = T_BLOCKED;
	me->wait_kind = kind;
	me->wait_obj = obj;
	me->deadline = deadline_ns;
	me->cancellable_block = cancellable;
	me->woke = SIM_WOKEN;
	switch_to(me, choose());
	me->wait_kind = SIM_W_NONE;
	me->wait_obj = NULL;
	me->deadline = SIM_NO_DEADLINE;
	me->cancellable_block = 0;
	return (enum sim_wake_reason)me->woke;
}

void sim_wake(enum sim_wait_kind kind, const void *obj)
{
	for (int i = 0; i < G.ntasks; i++) {
		struct sim_task *t = &G.tasks[i];

		if (t->state == T_BLOCKED && t->wait_kind == (int)kind && t->wait_obj == obj) {
			t->state = T_RUNNABLE;
			t->woke = SIM_WOKEN;
		}
	}
}

void sim_sleep_ns(uint64_t ns)
{
	if (!tls_task)
		return;
	(void)sim_block(SIM_W_TIME, NULL, G.now + ns, 0);
}

uint64_t sim_now_ns(void)
{
	return G.now;
}
uint64_t sim_steps(void)
{
	return G.st.steps;
}
int sim_active(void)
{
	return G.active;
}
int sim_in_task(void)
{
	return tls_task != NULL;
}
int sim_self(void)
{
	return tls_task ? tls_task->id : -1;
}
const char *sim_task_name(int id)
{
	return (id >= 0 && id < G.ntasks) ? G.tasks[id].name : "?";
}
void sim_name_self(const char *name)
{
	if (tls_task)
		snprintf(tls_task->name, sizeof(tls_task->name), "%s", name);
}
void sim_nopreempt_begin(void)
{
	if (tls_task)
		tls_task->nopreempt++;
}
void sim_nopreempt_end(void)
{
	if (tls_task)
		tls_task->nopreempt--;
}
int sim_task_count(void)
{
	return G.ntasks;
}
int sim_task_done(int id)
{
	return G.tasks[id].state == T_DONE;
}

/* ------------------------------------------------------------------ task lifecycle */
static void task_finish(void *p)
{
	struct sim_task *t = p;

	t->state = T_DONE;
	sim_log(EV_EXIT, (uint64_t)t->id, 0);
	sim_wake(SIM_W_JOIN, t);
	G.live--;
	tls_task = NULL;
	if (G.live == 0) {
		G.cur = NULL;
		atomic_store_explicit(&G.done, 1, memory_order_release);
		futex_wake(&G.done);
		return;
	}
	struct sim_task *next = choose();

	G.st.switches++;
	fnv(&G.sched_hash, (uint64_t)next->id);
	sim_log(EV_SWITCH, (uint64_t)next->id, 1);
	G.cur = next;
	give_go(next);
}

/* Paint the part of the stack the task is going to use, so that "uninitialised" stack bytes have a known,
 * per-run value: the same plan run with two different patterns must put identical bytes on the wire. */
static void __attribute__((noinline)) paint_stack(unsigned char fill)
{
	volatile unsigned char pad[96 * 1024];

	for (size_t i = 0; i < sizeof(pad); i++)
		pad[i] = fill;
	__asm__ volatile("" ::"r"(pad) : "memory");
}

static void *tramp(void *p)
{
	struct sim_task *t = p;
	void *r;

	tls_task = t;
	wait_go(t);
	paint_stack(G.cfg.stack_fill);
	pthread_cleanup_push(task_finish, t);
	r = t->fn(t->arg);
	pthread_cleanup_pop(1);
	return r;
}

static struct sim_task *task_create(const char *name, void *(*fn)(void *), void *arg, int is_lib)
{
	/* reuse the slot of a task that has finished and been joined (sockets are restarted many times in long runs) */
	struct sim_task *t = NULL;

	for (int i = 0; i < G.ntasks; i++)
		if (G.tasks[i].state == T_DONE && G.tasks[i].reaped) {
			t = &G.tasks[i];
			break;
		}
	if (!t) {
		if (G.ntasks >= SIM_MAX_TASKS)
			sim_fatal(SIM_F_INTERNAL, "too many tasks");
		t = &G.tasks[G.ntasks++];
	}
	int id = (int)(t - G.tasks);

	memset(t, 0, sizeof(*t));
	t->id = id;
	snprintf(t->name, sizeof(t->name), "%s", name);
	t->fn = fn;
	t->arg = arg;
	t->is_lib = is_lib;
	t->state = T_RUNNABLE;
	t->deadline = SIM_NO_DEADLINE;
	t->cancel_enabled = 1; /* POSIX default */
	t->budget = draw_budget();
	G.live++;
	G.st.tasks_spawned++;
	if (__real_pthread_create(&t->thr, NULL, tramp, t) != 0)
		sim_fatal(SIM_F_INTERNAL, "pthread_create failed");
	sim_log(EV_SPAWN, (uint64_t)t->id, (uint64_t)is_lib);
	return t;
}

int sim_spawn(const char *name, void *(*fn)(void *), void *arg)
{
	struct sim_task *t = task_create(name, fn, arg, 0);

	sim_sched_point();
	return t->id;
}

static void join_task(struct sim_task *t)
{
	while (t->state != T_DONE)
		(void)sim_block(SIM_W_JOIN, t, SIM_NO_DEADLINE, 0);
	if (!t->reaped) {
		t->reaped = 1;
		__real_pthread_join(t->thr, NULL);
	}
	sim_log(EV_JOIN, (uint64_t)t->id, 0);
}

void sim_join_task(int id)
{
	join_task(&G.tasks[id]);
}

int sim_task_of_pthread(pthread_t th)
{
	for (int i = G.ntasks - 1; i >= 0; i--)
		if (G.tasks[i].state != T_UNUSED && !G.tasks[i].reaped && pthread_equal(G.tasks[i].thr, th))
			return i;
	return -1;
}

void sim_run(const struct sim_cfg *cfg, void *(*main_fn)(void *), void *arg)
{
	if (tls_task)
		sim_fatal(SIM_F_INTERNAL, "sim_run from task");
	free(G.trace);
	sim_fatal_fn keep = G.fatal_fn;

	memset(&G, 0, sizeof(G));
	G.fatal_fn = keep;
	G.cfg = *cfg;
	if (!G.cfg.max_steps)
		G.cfg.max_steps = 5000000;
	if (!G.cfg.max_sim_ns)
		G.cfg.max_sim_ns = UINT64_MAX - 1;
	sim_rng_seed(&G.sched, cfg->sched_seed);
	G.now = cfg->boot_ns;
	G.hash = 0xcbf29ce484222325ull;
	G.sched_hash = 0xcbf29ce484222325ull;
	G.active = 1;
	struct sim_task *t0 = task_create("main", main_fn, arg, 0);

	G.cur = t0;
	give_go(t0);
	while (atomic_load_explicit(&G.done, memory_order_acquire) == 0)
		futex_wait(&G.done, 0);
	/* reap everything that was not joined inside the run */
	for (int i = 0; i < G.ntasks; i++)
		if (!G.tasks[i].reaped) {
			G.tasks[i].reaped = 1;
			__real_pthread_join(G.tasks[i].thr, NULL);
		}
	G.active = 0;
}

/* ------------------------------------------------------------------ cancellation */
static void do_cancel_exit(void) __attribute__((noreturn));
static void do_cancel_exit(void)
{
	struct sim_task *me = tls_task;

	me->cancel_pending = 0;
	me->cancel_enabled = 0;
	G.st.cancels_delivered++;
	sim_log(EV_CANCEL, (uint64_t)me->id, 1);
	__real_pthread_exit(PTHREAD_CANCELED);
}

int sim_cancel_pending_enabled(void)
{
	struct sim_task *me = tls_task;

	return me && me->cancel_pending && me->cancel_enabled;
}

void sim_cancel_point(void)
{
	if (sim_cancel_pending_enabled())
		do_cancel_exit();
}

/* ------------------------------------------------------------------ wrappers */
int __wrap_pthread_create(pthread_t *th, const pthread_attr_t *attr, void *(*fn)(void *), void *arg)
{
	if (!tls_task)
		return __real_pthread_create(th, attr, fn, arg);
	struct sim_task *t = task_create("lib", fn, arg, 1);

	*th = t->thr;
	sim_sched_point();
	return 0;
}

int __wrap_pthread_join(pthread_t th, void **ret)
{
	if (!tls_task)
		return __real_pthread_join(th, ret);
	int id = sim_task_of_pthread(th);

	if (id < 0) {
		/* the thread has been joined before and its slot reused (two overlapping rtr_stop calls on one socket were
		 * observed doing this): what POSIX leaves undefined is answered like a thread that no longer exists */
		sim_log(EV_JOIN, (uint64_t)-1, 0);
		return ESRCH;
	}
	struct sim_task *t = &G.tasks[id];

	while (t->state != T_DONE)
		(void)sim_block(SIM_W_JOIN, t, SIM_NO_DEADLINE, 0);
	int r = 0;

	if (!t->reaped) {
		t->reaped = 1;
		r = __real_pthread_join(t->thr, ret);
	}
	sim_log(EV_JOIN, (uint64_t)id, 1);
	return r;
}

void __wrap_pthread_exit(void *ret)
{
	/* cleanup handlers (library's, then our task_finish) run inside the real call */
	__real_pthread_exit(ret);
}

int __wrap_pthread_cancel(pthread_t th)
{
	if (!tls_task)
		return __real_pthread_cancel(th);
	int id = sim_task_of_pthread(th);

	if (id < 0)
		return ESRCH;
	struct sim_task *t = &G.tasks[id];

	sim_log(EV_CANCEL, (uint64_t)id, 0);
	if (t->state != T_DONE) {
		t->cancel_pending = 1;
		if (t->state == T_BLOCKED && t->cancellable_block && t->cancel_enabled) {
			t->state = T_RUNNABLE;
			t->woke = SIM_CANCELLED;
		}
	}
	sim_sched_point();
	return 0;
}

int __wrap_pthread_setcancelstate(int state, int *old)
{
	struct sim_task *me = tls_task;

	if (!me)
		return __real_pthread_setcancelstate(state, old);
	if (old)
		*old = me->cancel_enabled ? PTHREAD_CANCEL_ENABLE : PTHREAD_CANCEL_DISABLE;
	me->cancel_enabled = (state == PTHREAD_CANCEL_ENABLE);
	return 0;
}

static int lock_loop(pthread_rwlock_t *l, int wr)
{
	sim_sched_point();
	for (;;) {
		int r = wr ? pthread_rwlock_trywrlock(l) : pthread_rwlock_tryrdlock(l);

		if (r == 0) {
			sim_log(EV_LOCK, (uint64_t)wr, 0);
			return 0;
		}
		if (r != EBUSY && r != EAGAIN)
			return r;
		G.st.lock_blocks++;
		(void)sim_block(SIM_W_LOCK, l, SIM_NO_DEADLINE, 0);
	}
}

int __wrap_pthread_rwlock_rdlock(pthread_rwlock_t *l)
{
	if (!tls_task)
		return __real_pthread_rwlock_rdlock(l);
	return lock_loop(l, 0);
}

int __wrap_pthread_rwlock_wrlock(pthread_rwlock_t *l)
{
	if (!tls_task)
		return __real_pthread_rwlock_wrlock(l);
	return lock_loop(l, 1);
}

int __wrap_pthread_rwlock_unlock(pthread_rwlock_t *l)
{
	int r = __real_pthread_rwlock_unlock(l);

	if (!tls_task)
		return r;
	sim_log(EV_UNLOCK, 0, 0);
	sim_wake(SIM_W_LOCK, l);
	sim_sched_point();
	return r;
}

/* Mutexes and condition variables: rtrlib uses none today, but a change to it may; an unwrapped blocking call would stop
 * the process with the baton held. Same scheme as the rwlocks: try-lock in a loop, block in the simulator. */
int __wrap_pthread_mutex_lock(pthread_mutex_t *m)
{
	if (!tls_task)
		return __real_pthread_mutex_lock(m);
	sim_sched_point();
	for (;;) {
		int r = pthread_mutex_trylock(m);

		if (r == 0) {
			sim_log(EV_LOCK, 2, 0);
			return 0;
		}
		if (r != EBUSY && r != EAGAIN)
			return r;
		G.st.lock_blocks++;
		(void)sim_block(SIM_W_LOCK, m, SIM_NO_DEADLINE, 0);
	}
}

int __wrap_pthread_mutex_unlock(pthread_mutex_t *m)
{
	int r = __real_pthread_mutex_unlock(m);

	if (!tls_task)
		return r;
	sim_log(EV_UNLOCK, 2, 0);
	sim_wake(SIM_W_LOCK, m);
	sim_sched_point();
	return r;
}

static int cond_wait_until(pthread_cond_t *c, pthread_mutex_t *m, uint64_t deadline)
{
	/* (no task switch between the unlock and the block: a signal cannot be lost) */
	__real_pthread_mutex_unlock(m);
	sim_wake(SIM_W_LOCK, m);
	enum sim_wake_reason r = sim_block(SIM_W_USER, c, deadline, 1);

	(void)__wrap_pthread_mutex_lock(m);
	if (r == SIM_CANCELLED)
		do_cancel_exit(); /* POSIX: the mutex is re-acquired before the cleanup handlers run */
	return r == SIM_TIMEOUT ? ETIMEDOUT : 0;
}

int __wrap_pthread_cond_wait(pthread_cond_t *c, pthread_mutex_t *m)
{
	if (!tls_task)
		return __real_pthread_cond_wait(c, m);
	return cond_wait_until(c, m, SIM_NO_DEADLINE);
}

int __wrap_pthread_cond_timedwait(pthread_cond_t *c, pthread_mutex_t *m, const struct timespec *abs)
{
	if (!tls_task)
		return __real_pthread_cond_timedwait(c, m, abs);
	/* the absolute time is taken on the simulated monotonic clock if it lies within a day of it, otherwise as an offset
	 * from the real CLOCK_REALTIME (the default clock of a condition variable) */
	uint64_t t = (uint64_t)abs->tv_sec * SIM_NS + (uint64_t)abs->tv_nsec, dl;

	if (t + 86400 * SIM_NS >= G.now && t <= G.now + 86400 * SIM_NS)
		dl = t;
	else {
		struct timespec rt;

		__real_clock_gettime(CLOCK_REALTIME, &rt);
		uint64_t rn = (uint64_t)rt.tv_sec * SIM_NS + (uint64_t)rt.tv_nsec;

		dl = G.now + (t > rn ? t - rn : 0);
	}
	return cond_wait_until(c, m, dl);
}

int __wrap_pthread_cond_signal(pthread_cond_t *c)
{
	if (!tls_task)
		return __real_pthread_cond_signal(c);
	sim_wake(SIM_W_USER, c); /* wakes every waiter: spurious wake-ups are allowed */
	sim_sched_point();
	return 0;
}

int __wrap_pthread_cond_broadcast(pthread_cond_t *c)
{
	if (!tls_task)
		return __real_pthread_cond_broadcast(c);
	sim_wake(SIM_W_USER, c);
	sim_sched_point();
	return 0;
}

static void sleep_ns_cancellable(uint64_t ns)
{
	sim_log(EV_SLEEP, ns / SIM_NS, ns % SIM_NS);
	if (sim_block(SIM_W_TIME, NULL, G.now + ns, 1) == SIM_CANCELLED)
		do_cancel_exit();
}

int __wrap_usleep(useconds_t us)
{
	if (!tls_task)
		return __real_usleep(us);
	sleep_ns_cancellable((uint64_t)us * 1000);
	return 0;
}

int __wrap_nanosleep(const struct timespec *req, struct timespec *rem)
{
	if (!tls_task)
		return __real_nanosleep(req, rem);
	sleep_ns_cancellable((uint64_t)req->tv_sec * SIM_NS + (uint64_t)req->tv_nsec);
	if (rem)
		rem->tv_sec = 0, rem->tv_nsec = 0;
	return 0;
}

int __wrap_clock_gettime(clockid_t clk, struct timespec *ts)
{
	if (!tls_task || clk != CLOCK_MONOTONIC)
		return __real_clock_gettime(clk, ts);
	ts->tv_sec = (time_t)(G.now / SIM_NS);
	ts->tv_nsec = (long)(G.now % SIM_NS);
	return 0;
}

unsigned int __wrap_sleep(unsigned int sec)
{
	if (!tls_task)
		return __real_sleep(sec);
	sim_log(EV_SLEEP, (uint64_t)sec, 0);
	enum sim_wake_reason r = sim_block(SIM_W_TIME, NULL, G.now + (uint64_t)sec * SIM_NS, 1);

	if (r == SIM_CANCELLED)
		do_cancel_exit();
	return 0;
}

void __wrap_lrtr_dbg(const char *fmt, ...)
{
	(void)fmt;
}

/* ------------------------------------------------------------------ coverage guards */
#define COV_MAX 65536
static uint8_t cov_map[COV_MAX];
static uint32_t cov_total, cov_hit;

void __sanitizer_cov_trace_pc_guard_init(uint32_t *start, uint32_t *stop)
{
	if (start == stop || *start)
		return;
	for (uint32_t *x = start; x < stop; x++)
		*x = ++cov_total;
}

void __sanitizer_cov_trace_pc_guard(uint32_t *guard)
{
	uint32_t g = *guard;

	if (g && g < COV_MAX && !cov_map[g]) {
		cov_map[g] = 1;
		cov_hit++;
	}
	struct sim_task *t = tls_task;

	if (!t)
		return;
	if (++t->guards_since > BUSYLOOP_GUARDS)
		sim_fatal(SIM_F_BUSYLOOP, "task %s executed %llu basic blocks without reaching a scheduling point",
			  t->name, (unsigned long long)t->guards_since);
	if (!t->budget || t->nopreempt)
		return;
	if (--t->budget == 0) {
		t->budget = draw_budget();
		G.st.preemptions++;
		sim_sched_point();
	}
}

uint32_t sim_cov_total(void)
{
	return cov_total;
}
uint32_t sim_cov_hit(void)
{
	return cov_hit;
}
const uint8_t *sim_cov_map(uint32_t *n)
{
	*n = cov_total < COV_MAX ? cov_total + 1 : COV_MAX;
	return cov_map;
}
