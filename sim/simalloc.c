/* Simulated allocator. Not sanitizer-instrumented (see sim.c). */
#define _GNU_SOURCE
#include "simalloc.h"

#include "sim.h"

#include <stdio.h>
#include <stdlib.h>
#include <string.h>

void lrtr_set_alloc_functions(void *(*malloc_function)(size_t size), void *(*realloc_function)(void *ptr, size_t size),
			      void(free_function)(void *ptr));
void __real_free(void *p);

#define MAGIC 0x51a110c8b10c4eadull

struct hdr {
	uint64_t magic;
	uint64_t size;
	uint64_t serial;
	struct hdr *prev, *next;
	uint64_t pad;
};
_Static_assert(sizeof(struct hdr) == 48, "hdr");

static struct {
	struct hdr head; /* circular list sentinel */
	uint64_t calls, failures, live_blocks, live_bytes, total;
	uint64_t fail_at;
	unsigned fail_permille;
	struct sim_rng rng;
	uint8_t fill;
	uint64_t libc_free_of_sim, foreign_free;
	/* pointer set: open addressing */
	void **set;
	size_t set_cap, set_n;
} A;

static size_t hptr(const void *p, size_t cap)
{
	return (size_t)(sim_mix64((uint64_t)(uintptr_t)p)) & (cap - 1);
}

static void set_grow(void)
{
	size_t ncap = A.set_cap ? A.set_cap * 2 : 4096;
	void **n = calloc(ncap, sizeof(void *));

	if (!n)
		abort();
	for (size_t i = 0; i < A.set_cap; i++)
		if (A.set[i] && A.set[i] != (void *)1) {
			size_t j = hptr(A.set[i], ncap);

			while (n[j])
				j = (j + 1) & (ncap - 1);
			n[j] = A.set[i];
		}
	__real_free(A.set);
	A.set = n;
	A.set_cap = ncap;
}

static void set_add(void *p)
{
	if ((A.set_n + 1) * 2 > A.set_cap)
		set_grow();
	size_t j = hptr(p, A.set_cap);

	while (A.set[j] && A.set[j] != (void *)1)
		j = (j + 1) & (A.set_cap - 1);
	A.set[j] = p;
	A.set_n++;
}

static int set_has(const void *p, int del)
{
	if (!A.set_cap)
		return 0;
	size_t j = hptr(p, A.set_cap);

	while (A.set[j]) {
		if (A.set[j] == p) {
			if (del) {
				A.set[j] = (void *)1; /* tombstone */
			}
			return 1;
		}
		j = (j + 1) & (A.set_cap - 1);
	}
	return 0;
}

static void set_clear(void)
{
	if (A.set)
		memset(A.set, 0, A.set_cap * sizeof(void *));
	A.set_n = 0;
}

static int paused;
void simalloc_pause(int on)
{
	paused += on ? 1 : -1;
}

static int should_fail(void)
{
	if (paused)
		return 0; /* harness audit code calling library lookups: neither counted nor failed */
	A.calls++;
	if (A.fail_at && A.calls == A.fail_at)
		goto fail;
	if (A.fail_permille && sim_rng_below(&A.rng, 1000) < A.fail_permille)
		goto fail;
	return 0;
fail:
	A.failures++;
	if (sim_in_task())
		sim_log(EV_ALLOC_FAIL, A.calls, 0);
	return 1;
}

void *sim_malloc(size_t n)
{
	if (should_fail())
		return NULL;
	struct hdr *h = malloc(sizeof(*h) + n);

	if (!h)
		abort();
	h->magic = MAGIC;
	h->size = n;
	h->serial = A.calls;
	h->next = &A.head;
	h->prev = A.head.prev;
	A.head.prev->next = h;
	A.head.prev = h;
	A.live_blocks++;
	A.live_bytes += n;
	A.total++;
	void *p = h + 1;

	memset(p, A.fill, n);
	set_add(p);
	return p;
}

static void unlink_free(struct hdr *h)
{
	h->prev->next = h->next;
	h->next->prev = h->prev;
	A.live_blocks--;
	A.live_bytes -= h->size;
	memset(h + 1, (uint8_t)~A.fill, h->size);
	h->magic = 0;
	__real_free(h);
}

void sim_free(void *p)
{
	if (!p)
		return;
	if (!set_has(p, 1)) {
		A.foreign_free++;
		return; /* not ours: do not touch it */
	}
	unlink_free((struct hdr *)p - 1);
}

void *sim_realloc(void *p, size_t n)
{
	if (!p)
		return sim_malloc(n);
	if (n == 0) {
		sim_free(p);
		return NULL;
	}
	if (should_fail())
		return NULL;
	if (!set_has(p, 0)) {
		A.foreign_free++;
		return NULL;
	}
	struct hdr *h = (struct hdr *)p - 1;
	/* always move: stale pointers into the old block become visible to ASan */
	A.calls--; /* sim_malloc below counts again */
	uint64_t fa = A.fail_at;
	unsigned fp = A.fail_permille;

	A.fail_at = 0;
	A.fail_permille = 0;
	void *q = sim_malloc(n);

	A.fail_at = fa;
	A.fail_permille = fp;
	memcpy(q, p, h->size < n ? h->size : n);
	set_has(p, 1);
	unlink_free(h);
	return q;
}

/* the library (or anything else linked here) calling libc free() directly */
void __wrap_free(void *p)
{
	if (p && set_has(p, 1)) {
		A.libc_free_of_sim++;
		unlink_free((struct hdr *)p - 1);
		return;
	}
	__real_free(p);
}

void simalloc_install(void)
{
	if (!A.head.next) {
		A.head.next = A.head.prev = &A.head;
	}
	lrtr_set_alloc_functions(sim_malloc, sim_realloc, sim_free);
}

void simalloc_reset(uint8_t fill)
{
	if (!A.head.next)
		A.head.next = A.head.prev = &A.head;
	simalloc_release_all();
	A.calls = A.failures = A.total = 0;
	A.fail_at = 0;
	A.fail_permille = 0;
	A.fill = fill;
	A.libc_free_of_sim = A.foreign_free = 0;
	set_clear();
}

void simalloc_fail_at(uint64_t k)
{
	A.fail_at = k;
}
void simalloc_fail_random(unsigned permille, uint64_t seed)
{
	A.fail_permille = permille;
	sim_rng_seed(&A.rng, seed);
}
void simalloc_fail_off(void)
{
	A.fail_at = 0;
	A.fail_permille = 0;
}
uint64_t simalloc_calls(void)
{
	return A.calls;
}
uint64_t simalloc_failures(void)
{
	return A.failures;
}
uint64_t simalloc_live_blocks(void)
{
	return A.live_blocks;
}
uint64_t simalloc_live_bytes(void)
{
	return A.live_bytes;
}
uint64_t simalloc_total_blocks(void)
{
	return A.total;
}
uint64_t simalloc_libc_free_of_sim_block(void)
{
	return A.libc_free_of_sim;
}
uint64_t simalloc_foreign_free(void)
{
	return A.foreign_free;
}
uint64_t simalloc_oldest_live_serial(void)
{
	return A.head.next != &A.head ? A.head.next->serial : 0;
}

void simalloc_release_all(void)
{
	while (A.head.next && A.head.next != &A.head) {
		struct hdr *h = A.head.next;

		set_has(h + 1, 1);
		unlink_free(h);
	}
}
