/* Simulated allocator installed through the public lrtr_set_alloc_functions(). DESIGN.md §4.4 */
#ifndef VERIF_SIMALLOC_H
#define VERIF_SIMALLOC_H
#include <stddef.h>
#include <stdint.h>
#ifdef __cplusplus
extern "C" {
#endif

void simalloc_install(void);
/* start of a run: counters to zero, fill pattern for fresh memory */
void simalloc_reset(uint8_t fill);
/* fail the k-th allocation call of the run (1-based; 0 = never) */
void simalloc_fail_at(uint64_t k);
/* additionally fail each call with probability permille/1000, decided by its own PRNG */
void simalloc_fail_random(unsigned permille, uint64_t seed);
void simalloc_fail_off(void);
/* audit code: allocations made while paused are neither counted nor failed (nestable) */
void simalloc_pause(int on);
uint64_t simalloc_calls(void); /* allocation calls so far in this run */
uint64_t simalloc_failures(void); /* injected failures so far */
uint64_t simalloc_live_blocks(void);
uint64_t simalloc_live_bytes(void);
uint64_t simalloc_total_blocks(void);
/* misuse counters */
uint64_t simalloc_libc_free_of_sim_block(void); /* library called free() on a block of the configured allocator */
uint64_t simalloc_foreign_free(void); /* configured free() got a pointer it never handed out */
/* serial number (allocation call index) of the oldest live block, 0 if none */
uint64_t simalloc_oldest_live_serial(void);
/* end of run: release whatever is still live (after the harness has looked at the counters) */
void simalloc_release_all(void);

void *sim_malloc(size_t n);
void *sim_realloc(void *p, size_t n);
void sim_free(void *p);

#ifdef __cplusplus
}
#endif
#endif
