/* Deterministic simulation kernel for rtrlib: baton scheduler over real threads,
 * simulated clock, link-time wrappers (pthread_*, sleep, clock_gettime, lrtr_dbg),
 * coverage-guard preemption, event log hash.  See DESIGN.md §2-§3.
 *
 * Plain C on purpose: the library cancels/exits threads with pthread_exit and
 * relies on pthread_cleanup_push unwinding.
 */
#ifndef VERIF_SIM_H
#define VERIF_SIM_H

#include <pthread.h>
#include <stddef.h>
#include <stdint.h>

#ifdef __cplusplus
extern "C" {
#endif

#define SIM_MAX_TASKS 48
#define SIM_NO_DEADLINE UINT64_MAX
#define SIM_NS 1000000000ull

/* ---- PRNG (splitmix64 seeded xoshiro256**) ---- */
struct sim_rng {
	uint64_t s[4];
};
void sim_rng_seed(struct sim_rng *r, uint64_t seed);
uint64_t sim_rng_next(struct sim_rng *r);
/* uniform in [0, n) ; n > 0 */
uint64_t sim_rng_below(struct sim_rng *r, uint64_t n);
uint64_t sim_mix64(uint64_t x);

/* ---- configuration of one run ---- */
struct sim_cfg {
	uint64_t sched_seed;
	uint64_t boot_ns; /* value of the simulated clock at start */
	/* probability (per mille) that a scheduling point switches to a random runnable task
	 * instead of continuing the current one */
	unsigned switch_permille;
	/* guard-level preemption: 0 = never; otherwise mean slice length in coverage guards */
	unsigned preempt_mean;
	uint64_t max_steps; /* cap on scheduling points per run */
	uint64_t max_sim_ns; /* cap on simulated time (absolute) */
	int trace; /* keep the full event log in memory (replay --trace) */
	unsigned char stack_fill; /* every task's stack is pre-painted with this byte (C14 differential) */
};

enum sim_wake_reason { SIM_WOKEN = 0, SIM_TIMEOUT = 1, SIM_CANCELLED = 2 };

enum sim_wait_kind { SIM_W_NONE = 0, SIM_W_TIME, SIM_W_JOIN, SIM_W_LOCK, SIM_W_IO, SIM_W_USER };

/* event types of the log (hashed) */
enum sim_ev {
	EV_SWITCH = 1,
	EV_CLOCK,
	EV_SPAWN,
	EV_EXIT,
	EV_JOIN,
	EV_CANCEL,
	EV_LOCK,
	EV_UNLOCK,
	EV_SLEEP,
	EV_IO, /* transport call: a = op<<8|conn, b = len/result */
	EV_FAULT,
	EV_ALLOC_FAIL,
	EV_CB, /* library callback observed */
	EV_OBS, /* oracle observation */
	EV_USER
};

struct sim_event {
	uint32_t type;
	uint32_t task;
	uint64_t a, b;
	uint64_t t_ns;
};

/* ---- fatal outcomes: the run cannot be completed in-process ---- */
enum sim_fatal_kind { SIM_F_NONE = 0, SIM_F_DEADLOCK, SIM_F_STEPS, SIM_F_BUSYLOOP, SIM_F_SIMTIME, SIM_F_INTERNAL };
typedef void (*sim_fatal_fn)(enum sim_fatal_kind kind, const char *msg);
void sim_set_fatal_handler(sim_fatal_fn fn);
void sim_fatal(enum sim_fatal_kind kind, const char *fmt, ...) __attribute__((noreturn, format(printf, 2, 3)));

/* ---- run control (called from the supervisor = a non-task thread) ---- */
/* Runs main_fn as task 0 under the simulator and returns when every task has finished. */
void sim_run(const struct sim_cfg *cfg, void *(*main_fn)(void *), void *arg);
int sim_active(void); /* 1 while a run is in progress */
int sim_in_task(void); /* 1 if the calling thread is a simulated task */

/* ---- task API (called from tasks) ---- */
int sim_self(void);
const char *sim_task_name(int id);
int sim_spawn(const char *name, void *(*fn)(void *), void *arg); /* harness task; returns task id */
void sim_join_task(int id);
void sim_name_self(const char *name);
uint64_t sim_now_ns(void);
uint64_t sim_steps(void);
void sim_sleep_ns(uint64_t ns); /* not a cancellation point */
void sim_sched_point(void);
/* directed yield: hand the baton to task `id` if it is runnable (used to fire an operator action at a chosen point) */
void sim_switch_to_task(int id);
/* Block until sim_wake() on obj, the deadline, or (if cancellable) a pending enabled cancel. */
enum sim_wake_reason sim_block(enum sim_wait_kind kind, const void *obj, uint64_t deadline_ns, int cancellable);
void sim_wake(enum sim_wait_kind kind, const void *obj);
/* Act on a pending cancellation if enabled: does not return in that case. */
void sim_cancel_point(void);
int sim_cancel_pending_enabled(void);
/* suppress voluntary switches (sched points, preemption) in audit code; nestable */
void sim_nopreempt_begin(void);
void sim_nopreempt_end(void);
/* id of the task created by the most recent wrapped pthread_create, by pthread_t */
int sim_task_of_pthread(pthread_t t);
int sim_task_done(int id);
int sim_task_count(void);

/* ---- log ---- */
void sim_log(uint32_t type, uint64_t a, uint64_t b);
uint64_t sim_log_hash(void);
uint64_t sim_sched_hash(void); /* hash over scheduling decisions only */
uint64_t sim_log_count(void);
const struct sim_event *sim_trace(size_t *n);

/* ---- statistics of the last/current run ---- */
struct sim_stats {
	uint64_t steps, switches, preemptions, clock_jumps, lock_blocks, cancels_delivered, tasks_spawned;
	uint64_t sim_ns_elapsed;
};
const struct sim_stats *sim_get_stats(void);

/* ---- coverage guards ---- */
uint32_t sim_cov_total(void);
uint32_t sim_cov_hit(void); /* cumulative over the process */
const uint8_t *sim_cov_map(uint32_t *n);

#ifdef __cplusplus
}
#endif
#endif
