#!/bin/bash
cd "$(dirname "$0")"
python3 build.py asan tsan >/dev/null || exit 2
for p in C15 C08 C13 C03 C07 C05 C14 C17; do
  out=$(VERIF_SEED=35 VERIF_OUT=/tmp/soakl-out ./check $p --tier thorough --time 380 2>&1 | grep -E "VIOLATION|OK |MACH|^  C" | cut -c1-240 | head -6 | tr '\n' '|')
  echo "thorough35 $p $out"
done
