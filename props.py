"""Per-property check configuration (suites, levels, evidence rules). DESIGN §8."""

COMPONENTS = {
    "real": ["rtrlib/rtr/rtr.c", "rtrlib/rtr/packets.c", "rtrlib/rtr_mgr.c", "rtrlib/pfx/trie/trie.c",
             "rtrlib/pfx/trie/trie-pfx.c", "rtrlib/spki/hashtable/ht-spkitable.c", "third-party/tommyds",
             "rtrlib/transport/transport.c", "rtrlib/lib/*.c (alloc_utils, ip, ipv4, ipv6, utils, convert_byte_order)"],
    "stub": ["rtrlib/transport/tcp, rtrlib/transport/ssh -> simulated transport behind struct tr_socket",
             "RTR cache server -> simulated cache model + fault script",
             "pthread scheduling, sleep, clock_gettime, cancellation -> simulator (link-time wrappers)",
             "lrtr_dbg -> no-op", "heap -> simulated allocator via lrtr_set_alloc_functions"],
    "not_built": ["rtrlib/bgpsec (C11/C12 not addressed by this technique)"],
}

PFX_RULE = ("seeded operation histories (add/remove/src_remove/atomic-reload recipe) over a small colliding universe of "
            "IPv4/IPv6 prefixes (lengths incl. 0,1,31,32 / 0,1,63,64,65,127,128, nested chains, siblings), 3 sources, AS incl. 0; "
            "after every operation full enumeration and the callback log are compared with a std::set model and a batch of "
            "validation queries near every stored prefix is compared with the RFC 6811 definition. A run is non-trivial if it "
            "executed >= 10 operations and >= 1 query; distinct = distinct run hashes (hash over every event of the run).")

PROPS = {
    "C01": {
        "level": "exploration",
        "rule": PFX_RULE,
        "suites": [
            {"name": "pfx-hist", "kind": "random", "scn": "pfx", "variant": "asan", "opts": {"maxops": 120, "query_budget": 200},
             "runs_quick": 3000, "time_quick": 35, "runs_thorough": 200000, "time_thorough": 600},
        ],
        "min_counters": {"queries": 1000},
        "assumptions": ["records have host bits zero (as the property states)",
                        "model: std::set + literal RFC 6811 definition in 128-bit arithmetic"],
    },
    "C02": {
        "level": "exploration",
        "rule": PFX_RULE,
        "suites": [
            {"name": "pfx-hist", "kind": "random", "scn": "pfx", "variant": "asan", "opts": {"maxops": 200, "query_budget": 20},
             "runs_quick": 4000, "time_quick": 35, "runs_thorough": 300000, "time_thorough": 600},
        ],
        "min_counters": {"enum_checks": 1000},
        "assumptions": ["model: std::set of (family, prefix, len, max_len, asn, source)"],
    },
    "C09": {
        "level": "exploration",
        "rule": PFX_RULE,
        "suites": [
            {"name": "pfx-hist", "kind": "random", "scn": "pfx", "variant": "asan", "opts": {"maxops": 200, "query_budget": 10},
             "runs_quick": 4000, "time_quick": 35, "runs_thorough": 300000, "time_thorough": 600},
        ],
        "min_counters": {"pfx_cb": 1000},
        "assumptions": ["callback log = set rebuilt purely from pfx_update_fp invocations"],
    },
}
