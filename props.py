"""Per-property check configuration (suites, levels, evidence rules). DESIGN §8."""

COMPONENTS = {
    "real": ["rtrlib/rtr/rtr.c", "rtrlib/rtr/packets.c", "rtrlib/rtr_mgr.c", "rtrlib/pfx/trie/trie.c",
             "rtrlib/pfx/trie/trie-pfx.c", "rtrlib/spki/hashtable/ht-spkitable.c", "third-party/tommyds",
             "rtrlib/transport/transport.c", "rtrlib/lib/*.c (alloc_utils, ip, ipv4, ipv6, utils, convert_byte_order)"],
    "stub": ["rtrlib/transport/tcp, rtrlib/transport/ssh -> simulated transport behind struct tr_socket",
             "RTR cache server -> simulated cache model + fault script",
             "pthread scheduling, sleep, clock_gettime, cancellation -> simulator (link-time wrappers)",
             "lrtr_dbg -> no-op", "heap -> simulated allocator via lrtr_set_alloc_functions"],
    "not_built": ["rtrlib/bgpsec (C11/C12 not addressed by this technique)"],
}

PFX_RULE = ("seeded operation histories (add/remove/src_remove/atomic-reload recipe) over a small colliding universe of "
            "IPv4/IPv6 prefixes (lengths incl. 0,1,31,32 / 0,1,63,64,65,127,128, nested chains, siblings), 3 sources, AS incl. 0; "
            "after every operation full enumeration and the callback log are compared with a std::set model and a batch of "
            "validation queries near every stored prefix is compared with the RFC 6811 definition. A run is non-trivial if it "
            "executed >= 10 operations and >= 1 query; distinct = distinct run hashes (hash over every event of the run).")

PROPS = {
    "C01": {
        "level": "exploration",
        "rule": PFX_RULE,
        "suites": [
            {"name": "pfx-hist", "kind": "random", "scn": "pfx", "variant": "asan", "opts": {"maxops": 120, "query_budget": 200},
             "runs_quick": 3000, "time_quick": 35, "runs_thorough": 200000, "time_thorough": 600},
        ],
        "min_counters": {"queries": 1000},
        "assumptions": ["records have host bits zero (as the property states)",
                        "model: std::set + literal RFC 6811 definition in 128-bit arithmetic"],
    },
    "C02": {
        "level": "exploration",
        "rule": PFX_RULE,
        "suites": [
            {"name": "pfx-hist", "kind": "random", "scn": "pfx", "variant": "asan", "opts": {"maxops": 200, "query_budget": 20},
             "runs_quick": 4000, "time_quick": 35, "runs_thorough": 300000, "time_thorough": 600},
        ],
        "min_counters": {"enum_checks": 1000},
        "assumptions": ["model: std::set of (family, prefix, len, max_len, asn, source)"],
    },
    "C09": {
        "level": "exploration",
        "rule": PFX_RULE,
        "suites": [
            {"name": "pfx-hist", "kind": "random", "scn": "pfx", "variant": "asan", "opts": {"maxops": 200, "query_budget": 10},
             "runs_quick": 4000, "time_quick": 35, "runs_thorough": 300000, "time_thorough": 600},
        ],
        "min_counters": {"pfx_cb": 1000},
        "assumptions": ["callback log = set rebuilt purely from pfx_update_fp invocations"],
    },
    "C10": {
        "level": "exploration",
        "rule": ("seeded histories of add_entry/remove_entry/src_remove/copy_except_socket+swap+notify_diff on a private router-key "
                 "table; AS numbers chosen so that tommy_inthash_u32 shares low bits (same bucket, different AS), 2-6 SKIs shared "
                 "across ASes, 3 sources, table size walking across the hash table's grow/shrink thresholds (32, 64, 128). After "
                 "operations get_all for every (AS, SKI) of the universe and search_by_ski for every SKI are compared with a std::set "
                 "model, and the callback log with the model. Non-trivial: >= 10 operations and >= 1 lookup; distinct = run hashes."),
        "suites": [
            {"name": "spki-hist", "kind": "random", "scn": "spki", "variant": "asan", "opts": {"maxops": 400},
             "runs_quick": 3000, "time_quick": 35, "runs_thorough": 200000, "time_thorough": 600},
        ],
        "min_counters": {"lookup_checks": 500, "spki_cb": 500},
        "expected_probes": ["probe_hash_grow", "probe_hash_grow2", "probe_hash_shrink", "probe_hash_regrow_during_shrink", "probe_srcrm_nonempty"],
        "assumptions": ["model: std::set of (asn, ski, spki, source)"],
    },
    "C16": {
        "level": "exploration",
        "rule": ("one writer task (add/remove/src_remove on a private pfx or spki table) and 1-3 reader tasks (validate, validate_r, "
                 "for_each v4/v6, get_all, search_by_ski) run under the seeded scheduler with basic-block-granularity preemption "
                 "(mean slice 3..200 coverage guards, or only at lock operations). O1: every read must equal the model's answer in some "
                 "writer state between its invoke and return stamps (global event sequence numbers), monotone along real-time order. "
                 "O2: the same plans in the ThreadSanitizer build; the scheduler baton is invisible to TSan, so any report on table state "
                 "is a race the library's own locks do not order. Non-trivial: at least one read overlapped a write; distinct = run hashes; "
                 "distinct_schedules = distinct scheduling-decision hashes."),
        "suites": [
            {"name": "conc-lin", "kind": "random", "scn": "conc", "variant": "asan", "opts": {},
             "runs_quick": 2500, "time_quick": 30, "runs_thorough": 1500000, "time_thorough": 500},
            {"name": "conc-tsan", "kind": "random", "scn": "conc", "variant": "tsan", "opts": {},
             "runs_quick": 800, "time_quick": 25, "runs_thorough": 500000, "time_thorough": 400},
        ],
        "min_counters": {"reads_overlapping_writes": 500},
        "assumptions": ["single writer => writer states are totally ordered; src_remove is two instants (IPv4 then IPv6), as the API does",
                        "TSan sees accesses through memcpy/memcmp interceptors only when made by instrumented code paths (ignore_interceptors_accesses=1 silences the uninstrumented harness)"],
    },
    "C18": {
        "level": "fault_enumeration",
        "rule": ("for each base history (prefix table, router-key table, later: whole synchronisations) the plan is first run fault-free "
                 "with the simulated allocator installed through lrtr_set_alloc_functions and its allocation calls are counted (N, "
                 "deterministic); then it is re-run failing exactly the k-th call, for every k in 1..N (thorough) or a stratified sample "
                 "(quick). Oracles: no crash/sanitizer report, an operation that reports an error leaves the model unchanged, all later "
                 "operations conform to the model; in failure-free runs the ledger must be empty after the tables are freed and no block "
                 "may be released through libc free(). Non-trivial: >= 10 operations; distinct = run hashes."),
        "suites": [
            {"name": "pfx-alloc", "kind": "allocsweep", "scn": "pfx", "variant": "asan", "opts": {"maxops": 40, "query_budget": 30},
             "runs_quick": 40, "time_quick": 25, "k_per_base_quick": 40, "runs_thorough": 600, "time_thorough": 400},
            {"name": "spki-alloc", "kind": "allocsweep", "scn": "spki", "variant": "asan", "opts": {"maxops": 80, "small": 0},
             "runs_quick": 40, "time_quick": 25, "k_per_base_quick": 40, "runs_thorough": 600, "time_thorough": 400},
            {"name": "world-ledger", "kind": "random", "scn": "world", "variant": "asan", "opts": {"focus": "C07"},
             "runs_quick": 400, "time_quick": 20, "runs_thorough": 30000, "time_thorough": 300},
            {"name": "world-alloc", "kind": "allocsweep", "scn": "world", "variant": "asan", "opts": {"focus": "C18", "single": 1, "maxx": 6},
             "runs_quick": 40, "time_quick": 40, "k_per_base_quick": 30, "runs_thorough": 400, "time_thorough": 500},
        ],
        "min_counters": {"allocsweep_points": 200},
        "expected_probes": ["probe_alloc_failure_inside_sync"],
        "exhaustive_note": "thorough tier: every allocation index of every base history is failed once (exhaustive per base history)",
        "assumptions": ["single allocation failure per run (plus random multi-failure swarm runs)"],
    },
}

WORLD_RULE = ("whole-system runs: rtr_mgr with 1-2 sockets (real FSM threads, real packets.c/rtr.c/rtr_mgr.c/tables) against simulated caches "
              "over a simulated transport under the seeded scheduler and simulated clock. Each cache follows a generated script of 2-14 "
              "exchanges (honest data evolution, Serial Notify, Cache Reset, No-Data, restarts with new session, lost history) into which "
              "protocol deviations (duplicate announcement, unknown withdrawal, bad flags, session mismatch in Cache Response / End of Data, "
              "wrong version, bad length, unknown type, unexpected PDUs, missing End of Data) and transport faults (recv/send error, EINTR, "
              "stream cut with close or stall, connect failure / slow connect) are injected at chosen PDUs / transport calls; afterwards the "
              "cache answers correctly. Oracles are evaluated at every return of rtr_sync (link-time wrapper), at every query on the wire, at "
              "every transport open and at stop: a reference walk over the bytes the cache actually sent classifies each exchange from the "
              "property statements. A run is non-trivial if at least one synchronisation succeeded or changed the tables; distinct = distinct "
              "run hashes over all events.")


# metamorphic runs end at a fixed simulated time and are not truncated by the step budget
_MM = {"end.mode": "time", "end.max_s": 2500, "end.max_queries": 3000, "soft_steps": 1000000000, "sim.max_steps": 40000000}


def _world(focus, name=None, **kw):
    d = {"name": name or ("world-" + focus), "kind": "random", "scn": "world", "variant": "asan", "opts": {"focus": focus},
         "runs_quick": 1500, "time_quick": 40, "runs_thorough": 150000, "time_thorough": 700}
    d.update(kw)
    return d


PROPS.update({
    "C03": {"level": "fault_enumeration",
            "rule": WORLD_RULE + " Second suite (single-fault enumeration): fault-free base conversations (honest data evolution only) are run once to "
            "learn, per scripted exchange, the number of transport receive calls, PDUs and bytes of the answer; then the conversation is re-run with exactly "
            "one fault: every receive call x {error, EINTR}, the query's send x {error, EINTR, would-block}, every PDU position x 18 protocol deviations, "
            "cuts at 25 byte offsets x {close, stall}, hang-up, silence, Cache Reset (thorough: all points of every base; quick: a stratified sample). "
            "In combination: seeded pairs of those points (same or different exchanges of the same base; 150 per base quick, 1500 thorough). "
            "Third suite (aligned pairs): two caches of one group with equal timers; cache 0 goes through reloads while cache 1 changes its data at every "
            "poll, and the simulated network holds back the last bytes of one answer until the other socket has read the answer it is about to apply "
            "(rendezvous delay, bounded), so that both socket threads apply at the same instant and the scheduler interleaves them: 'records learned "
            "from other caches are never altered' under every interleaving of two synchronisations.",
            "suites": [_world("C03", runs_quick=900, time_quick=25),
                       _world("C03", name="world-C03-pair", opts={"focus": "C03", "pair": 1}, runs_quick=500, time_quick=15, runs_thorough=40000, time_thorough=300),
                       {"name": "world-C03-sweep", "kind": "faultsweep", "scn": "world", "variant": "asan", "opts": {"focus": "C03", "single": 1, "clean": 1, "maxx": 5},
                        "runs_quick": 12, "time_quick": 30, "k_per_base_quick": 120, "pairs_per_base_quick": 150, "runs_thorough": 150, "time_thorough": 600, "pairs_per_base_thorough": 1500}],
            "min_counters": {"sync_audits": 500, "faultsweep_points": 500, "faultsweep_pairs": 100},
            "exhaustive_note": "thorough tier: every single-fault point of every sampled base conversation is executed (exhaustive per base) plus 1500 seeded fault pairs per base; bases are sampled",
            "expected_probes": ["probe_failed_sync_records_kept", "probe_reload_with_old_data", "walk_fail_dup", "walk_fail_unk", "walk_fail_flags",
                                "walk_fail_sess-cr", "walk_fail_sess-eod", "sync_with_transport_fault"],
            "assumptions": ["exchange classification = reference walk over the exact byte stream, written from the property text"]},
    "C05": {"level": "exploration", "rule": WORLD_RULE, "suites": [_world("C05")], "min_counters": {"queries_seen": 500},
            "expected_probes": ["probe_cache_reset_consumed", "probe_error_pdu_consumed_code_2", "probe_expired_at_open", "walk_fail_sess-cr", "walk_fail_sess-eod"],
            "assumptions": ["the session oracle is updated only from bytes on the wire, rtr_sync results and simulated time"]},
    "C14": {"level": "exploration", "rule": WORLD_RULE + " C14 also replays each plan of a second suite with two different fill patterns for fresh heap blocks "
            "and for every task's stack (0xA5 / 0x5A): the bytes the client puts on the wire must be identical (no byte sent stems from uninitialised memory).",
            "suites": [_world("C14"),
                       {"name": "world-C14-fill", "kind": "metamorphic", "scn": "world", "variant": "asan", "opts": {"focus": "C14", "single": 1},
                        "variants": [dict(_MM, **{"fill": 0xA5}), dict(_MM, **{"fill": 0x5A})],
                        "equal_fields": ["sent"], "cls": "uninitialised-bytes-sent",
                        "runs_quick": 300, "time_quick": 25, "runs_thorough": 30000, "time_thorough": 400}],
            "min_counters": {"client_pdus": 500, "report_audits": 50, "metamorphic_groups": 50},
            "expected_probes": ["probe_report_framing", "probe_report_version", "probe_report_dup", "probe_report_unk", "probe_report_flags",
                                "probe_report_sess-eod", "probe_report_unexpected", "probe_report_unktype"],
            "assumptions": ["offending PDU = first PDU of the stream a correct client must refuse (family order for payload errors)"]},
    "C07": {"level": "exploration", "rule": WORLD_RULE + " C07 plans add: the cache disappears (every connect fails) for T seconds with T drawn around the expire interval "
            "in force (0.5x, -3..+4 s, 2..10x), optionally right after an interrupted reload; operator stop/start at random times.",
            "suites": [_world("C07")], "min_counters": {"stop_audits": 500},
            "expected_probes": ["probe_expired_at_open", "probe_expiry_band_at_open", "expiry_audits", "fault_unreachable"],
            "assumptions": ["+-2 s indifference band around the expire interval (second-granular, rounded-up library clock)"]},
    "C08": {"level": "fault_enumeration", "rule": WORLD_RULE + " C08: after the scripted fault phase the cache answers correctly with a fixed data set; the socket must reach "
            "ESTABLISHED with exactly the cache's records within refresh + expire + 4*retry + 360 s of simulated time; deadlock, busy loop and step-limit "
            "detectors cover 'never loops without letting time advance'.",
            "suites": [_world("C08", runs_quick=900, time_quick=25),
                       {"name": "world-C08-sweep", "kind": "faultsweep", "scn": "world", "variant": "asan", "opts": {"focus": "C08", "single": 1, "clean": 1, "maxx": 5, "fast_intervals": 1},
                        "runs_quick": 12, "time_quick": 30, "k_per_base_quick": 120, "pairs_per_base_quick": 150, "runs_thorough": 150, "time_thorough": 600, "pairs_per_base_thorough": 1500}],
            "min_counters": {"sync_audits": 500, "probe_converged_runs": 100, "faultsweep_points": 500, "faultsweep_pairs": 100},
            "exhaustive_note": "thorough tier: every single-fault point (call site x fault kind, PDU position x deviation kind) of every sampled base conversation plus 1500 seeded fault pairs per base, each followed by recovery",
            "assumptions": ["during the fault phase every response the client accepts is honest (DESIGN §8 C08)"]},
    "C13": {"level": "exploration", "rule": WORLD_RULE + " C13 plans add: caches that only speak version 0, answers in version 0 to version-1 queries, Unsupported-Version "
            "reports carrying version 0/1/2/255, hang-ups before a session exists, PDUs with arbitrary version bytes, End of Data in the other version's format.",
            "suites": [_world("C13")], "min_counters": {"queries_seen": 500},
            "expected_probes": ["probe_downgrade_first_pdu", "probe_downgrade_code4", "probe_downgrade_hangup", "probe_report_version"],
            "assumptions": []},
    "C17": {"level": "exploration", "rule": WORLD_RULE + " C17 plans add: End of Data intervals from the boundary set {0,1,2,599,600,601,7200,7201,86400,86401,172800,172801,2^32-1} and "
            "random 32-bit values, all four interval modes, Serial Notify at random instants.",
            "suites": [_world("C17")], "min_counters": {"interval_audits": 500},
            "expected_probes": ["probe_poll_after_notify", "probe_poll_after_refresh"],
            "assumptions": ["+2 s slack on the refresh deadline (rounded-up second-granular clock)"]},
    "C04": {"level": "exploration", "rule": WORLD_RULE + " C04 plans are hostile: random byte edits in any PDU field, Error Reports with lying inner lengths, raw random streams, cuts at "
            "arbitrary offsets, 1-byte / random / maximal read chunking. Oracles: sanitizers + assertions (no crash), every run terminates (deadlock, "
            "busy-loop, step and simulated-time detectors), malformed-length / unknown-type PDUs never change the tables nor end in success, and the same "
            "plan under three read chunkings yields identical table contents, state sequence and sent bytes.",
            "suites": [_world("C04"),
                       {"name": "world-C04-chunking", "kind": "metamorphic", "scn": "world", "variant": "asan",
                        "opts": {"focus": "C04", "single": 1, "no_call_faults": 1},
                        "variants": [dict(_MM, **{"chunk.mode": "all"}), dict(_MM, **{"chunk.mode": "one"}), dict(_MM, **{"chunk.mode": "rand"})],
                        "equal_fields": ["tables", "states", "sent"], "cls": "segmentation-dependence",
                        "runs_quick": 250, "time_quick": 30, "runs_thorough": 20000, "time_thorough": 500}],
            "min_counters": {"sync_audits": 500, "metamorphic_groups": 50},
            "assumptions": ["UBSan restricted to memory-safety checks (bounds, null): the property speaks of invalid memory accesses and assertion failures"]},
    "C15": {"level": "exploration", "rule": WORLD_RULE + " C15 plans: 1-3 groups x 1-2 sockets with arbitrary distinct preferences plus spare sockets, cache scripts with outages "
            "that push sockets through ERROR and back, operator sequences of add_group (incl. preferences already in use) / remove_group (incl. unknown "
            "preference, last group, active group) at random times, and 1-4 configurations that rtr_mgr_init must reject (no groups, a group without "
            "sockets, duplicate preferences, out-of-range intervals). Oracles on every rtr_mgr_status_fp invocation (statements, not a re-implementation "
            "of the callback) and after every operator call.",
            "suites": [_world("C15", runs_quick=3000, time_quick=80)], "min_counters": {"status_cb": 2000, "init_cases": 300, "group_order_audits": 300},
            "expected_probes": ["probe_group_established", "probe_group_closed_by_failover", "probe_failover_started_next_group", "probe_group_added",
                                "probe_group_add_rejected", "probe_group_removed", "probe_group_remove_rejected"],
            "assumptions": ["consequences of a status report are checked when the reporting socket thread reports again (its callback has returned) or at the end of the run"]},
    "C06": {"level": "exploration",
            "rule": WORLD_RULE + " C06 plans: one group with two sockets; cache B static; cache A serves OLD, then forces 1-5 full reloads (restart with new "
            "session, lost history, no-data-then-data; NEW disjoint / empty / identical / overlapping; reloads that fail first) while 1-3 reader tasks "
            "are released at every byte delivery of the reload and issue batches of rtr_mgr_validate / rtr_mgr_get_spki calls under basic-block "
            "preemption (mean slice 15..400 guards). Every read during a reload must equal the answer under complete-OLD or complete-NEW (plus B), "
            "never go from new back to old per reader and table, and reads after the reload must see NEW (OLD if it failed). The same plans run in the "
            "ThreadSanitizer build. Non-trivial: as above; reads_during_reload_discriminating counts reads whose OLD and NEW answers differ.",
            "suites": [_world("C06", runs_quick=700, time_quick=35),
                       _world("C06", name="world-C06-tsan", variant="tsan", runs_quick=200, time_quick=25, runs_thorough=20000, time_thorough=400)],
            "min_counters": {"probe_reload_windows": 200, "reads_during_reload": 2000},
            "expected_probes": ["probe_reload_windows", "probe_reload_with_old_data"],
            "assumptions": ["cross-table ordering (prefix table swapped before router-key table) is not demanded: the statement speaks of 'the table'",
                            "cache A's data changes only through reloads in these plans"]},
})


# C09 / C10 "histories driven by cache responses": the callback mirrors are also audited in whole-system runs (after every
# synchronisation, stop and reload), including the aligned-pair plans in which two sockets apply at the same instant
PROPS["C09"]["suites"].append(_world("C03", name="world-C09", runs_quick=500, time_quick=12, runs_thorough=40000, time_thorough=250))
PROPS["C09"]["suites"].append(_world("C03", name="world-C09-pair", opts={"focus": "C03", "pair": 1}, runs_quick=300, time_quick=8, runs_thorough=20000, time_thorough=150))
PROPS["C10"]["suites"].append(_world("C03", name="world-C10", runs_quick=500, time_quick=12, runs_thorough=40000, time_thorough=250))
PROPS["C10"]["suites"].append(_world("C03", name="world-C10-pair", opts={"focus": "C03", "pair": 1}, runs_quick=300, time_quick=8, runs_thorough=20000, time_thorough=150))
for _p, _t in (("C09", "prefix"), ("C10", "router-key")):
    PROPS[_p]["rule"] += (" World suites: the same callback log is kept in whole-system runs (real FSM threads against simulated caches, C03 plans incl. "
                          "the aligned two-socket plans) and compared with the enumerated %s table after every synchronisation, failed or not, after reloads, "
                          "expiry purges and stops." % _t)

# two sockets applying at the same instant (aligned pairs, DESIGN §19): the consequences for expiry/stop (C07) and for
# re-convergence (C08) of the socket whose update or purge overlapped the other one's reload
PROPS["C07"]["suites"].append(_world("C07", name="world-C07-pair", opts={"focus": "C07", "pair": 1}, runs_quick=400, time_quick=12, runs_thorough=30000, time_thorough=200))
PROPS["C08"]["suites"].append(_world("C08", name="world-C08-pair", opts={"focus": "C08", "pair": 1}, runs_quick=400, time_quick=12, runs_thorough=30000, time_thorough=200))
