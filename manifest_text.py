"""Human-written texts for MANIFEST.json entries."""

NA = {
    "C11": "pure function of (path, NLRI, key table): no schedule, clock, transport or fault enters the statement; the concurrent "
           "key lookup it uses is covered by C16. Simulation would only be input generation (DESIGN §9).",
    "C12": "pure function of (path, NLRI, key) up to the ECDSA nonce; deciding it needs a second RFC 8205 implementation as oracle, "
           "not a simulator (DESIGN §9).",
    "C19": "pure string <-> integer functions with no I/O, state, time or concurrency for a simulator to control (DESIGN §9).",
    "C20": "finite table lookup over an enum: decided by walking the enum (enumeration), not by simulation (DESIGN §9).",
}

_SIM = "seeded deterministic simulation (real library code, simulated scheduler/clock/transport/allocator), "

TEXT = {
    "C01": {
        "text": "Reference-model conformance over seeded operation histories: every history shapes the trie differently (insert/remove "
                "order, payload swaps, atomic-reload recipe) and after every operation validation answers and reason sets are compared "
                "with the RFC 6811 definition computed independently in 128-bit arithmetic. Sampling, not proof; histories are also "
                "produced by the protocol engine in the whole-system checks.",
        "design_ref": "§8 C01", "note": "trusts the std::set model and the literal RFC 6811 definition in harness/models.hpp; records have host bits zero",
        "technique": _SIM + "model-based conformance of operation histories with shrinking",
    },
    "C02": {
        "text": "After every operation of seeded histories (duplicate adds, absent removes, per-source purges, reload recipe) return codes "
                "and the full enumeration are compared with a std::set model: each record exactly once with all five fields intact.",
        "design_ref": "§8 C02", "note": "trusts the std::set model; enumeration via the public for_each API",
        "technique": _SIM + "model-based conformance of operation histories with shrinking",
    },
    "C09": {
        "text": "A set rebuilt purely from update callbacks is compared with the model after every public operation, including per-source "
                "removal, the swap+diff reload recipe and table destruction; add-of-present / remove-of-absent are flagged at once. "
                "Whole-system runs add callback streams produced by real synchronisations, rollbacks and reloads.",
        "design_ref": "§8 C09", "note": "trusts the callback mirror and the model",
        "technique": _SIM + "callback-log vs model conformance over histories",
    },
    "C10": {
        "text": "Seeded histories over a colliding router-key universe (AS numbers sharing hash buckets, shared SKIs, 3 sources, sizes crossing "
                "the hash table's grow/shrink steps); after operations every (AS, SKI) lookup, every SKI lookup and the callback log are "
                "compared with a std::set model.",
        "design_ref": "§8 C10", "note": "trusts the std::set model; spki_table has no enumerator, so contents are compared through the two lookup functions over the whole key universe of the plan",
        "technique": _SIM + "model-based conformance of operation histories with shrinking",
    },
    "C16": {
        "text": "Schedule exploration: one writer and 1-3 readers on real threads under the seeded baton scheduler with preemption at "
                "basic-block granularity inside the library. Every read is checked for linearizability against the totally ordered writer "
                "states; the same plans run in a ThreadSanitizer build in which the scheduler is invisible to TSan, so a report on table "
                "state is a race not ordered by the library's own locks. Sampling of schedules, not enumeration.",
        "design_ref": "§8 C16, §3.3", "note": "single writer; TSan happens-before detection on the explored schedules only; accesses made through libc mem* interceptors are not tracked",
        "technique": _SIM + "seeded schedule exploration, linearizability checker + ThreadSanitizer as happens-before oracle",
    },
    "C18": {
        "level_override": "fault_enumeration",
        "text": "Enumeration of allocation sites per base history: the k-th allocation call fails, for every k (thorough) or a stratified sample "
                "(quick), each fault attached to the operation it hits so that failing plans shrink. Oracles: no crash, error => no partial "
                "effect, later operations conform to the model; failure-free runs must return every block to the configured allocator "
                "(libc free of a configured block is intercepted) and leave the ledger empty.",
        "design_ref": "§8 C18", "note": "one failing allocation per run; base histories are sampled; known finding: unchecked allocations inside third-party tommy_hashlin",
        "technique": _SIM + "exhaustive single-fault injection over the allocation calls of sampled histories",
    },
}
