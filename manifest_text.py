"""Human-written texts for MANIFEST.json entries."""

NA = {
    "C11": "pure function of (path, NLRI, key table): no schedule, clock, transport or fault enters the statement; the concurrent "
           "key lookup it uses is covered by C16. Simulation would only be input generation (DESIGN §9).",
    "C12": "pure function of (path, NLRI, key) up to the ECDSA nonce; deciding it needs a second RFC 8205 implementation as oracle, "
           "not a simulator (DESIGN §9).",
    "C19": "pure string <-> integer functions with no I/O, state, time or concurrency for a simulator to control (DESIGN §9).",
    "C20": "finite table lookup over an enum: decided by walking the enum (enumeration), not by simulation (DESIGN §9).",
}

_SIM = "seeded deterministic simulation (real library code, simulated scheduler/clock/transport/allocator), "

TEXT = {
    "C01": {
        "text": "Reference-model conformance over seeded operation histories: every history shapes the trie differently (insert/remove "
                "order, payload swaps, atomic-reload recipe) and after every operation validation answers and reason sets are compared "
                "with the RFC 6811 definition computed independently in 128-bit arithmetic. Sampling, not proof; histories are also "
                "produced by the protocol engine in the whole-system checks.",
        "design_ref": "§8 C01", "note": "trusts the std::set model and the literal RFC 6811 definition in harness/models.hpp; records have host bits zero",
        "technique": _SIM + "model-based conformance of operation histories with shrinking",
    },
    "C02": {
        "text": "After every operation of seeded histories (duplicate adds, absent removes, per-source purges, reload recipe) return codes "
                "and the full enumeration are compared with a std::set model: each record exactly once with all five fields intact.",
        "design_ref": "§8 C02", "note": "trusts the std::set model; enumeration via the public for_each API",
        "technique": _SIM + "model-based conformance of operation histories with shrinking",
    },
    "C09": {
        "text": "A set rebuilt purely from update callbacks is compared with the model after every public operation, including per-source "
                "removal, the swap+diff reload recipe and table destruction; add-of-present / remove-of-absent are flagged at once. "
                "Whole-system runs add callback streams produced by real synchronisations, rollbacks and reloads.",
        "design_ref": "§8 C09", "note": "trusts the callback mirror and the model",
        "technique": _SIM + "callback-log vs model conformance over histories",
    },
}
