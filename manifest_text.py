"""Human-written texts for MANIFEST.json entries."""

NA = {
    "C11": "pure function of (path, NLRI, key table): no schedule, clock, transport or fault enters the statement; the concurrent "
           "key lookup it uses is covered by C16. Simulation would only be input generation (DESIGN §9).",
    "C12": "pure function of (path, NLRI, key) up to the ECDSA nonce; deciding it needs a second RFC 8205 implementation as oracle, "
           "not a simulator (DESIGN §9).",
    "C19": "pure string <-> integer functions with no I/O, state, time or concurrency for a simulator to control (DESIGN §9).",
    "C20": "finite table lookup over an enum: decided by walking the enum (enumeration), not by simulation (DESIGN §9).",
}

_SIM = "seeded deterministic simulation (real library code, simulated scheduler/clock/transport/allocator), "

TEXT = {
    "C01": {
        "text": "Reference-model conformance over seeded operation histories: every history shapes the trie differently (insert/remove "
                "order, payload swaps, atomic-reload recipe) and after every operation validation answers and reason sets are compared "
                "with the RFC 6811 definition computed independently in 128-bit arithmetic. Sampling, not proof; histories are also "
                "produced by the protocol engine in the whole-system checks.",
        "design_ref": "§8 C01", "note": "trusts the std::set model and the literal RFC 6811 definition in harness/models.hpp; records have host bits zero",
        "technique": _SIM + "model-based conformance of operation histories with shrinking",
    },
    "C02": {
        "text": "After every operation of seeded histories (duplicate adds, absent removes, per-source purges, reload recipe) return codes "
                "and the full enumeration are compared with a std::set model: each record exactly once with all five fields intact.",
        "design_ref": "§8 C02", "note": "trusts the std::set model; enumeration via the public for_each API",
        "technique": _SIM + "model-based conformance of operation histories with shrinking",
    },
    "C09": {
        "text": "A set rebuilt purely from update callbacks is compared with the model after every public operation, including per-source "
                "removal, the swap+diff reload recipe and table destruction; add-of-present / remove-of-absent are flagged at once. "
                "Whole-system runs add callback streams produced by real synchronisations, rollbacks and reloads.",
        "design_ref": "§8 C09", "note": "trusts the callback mirror and the model",
        "technique": _SIM + "callback-log vs model conformance over histories",
    },
    "C10": {
        "text": "Seeded histories over a colliding router-key universe (AS numbers sharing hash buckets, shared SKIs, 3 sources, sizes crossing "
                "the hash table's grow/shrink steps); after operations every (AS, SKI) lookup, every SKI lookup and the callback log are "
                "compared with a std::set model.",
        "design_ref": "§8 C10", "note": "trusts the std::set model; spki_table has no enumerator, so contents are compared through the two lookup functions over the whole key universe of the plan",
        "technique": _SIM + "model-based conformance of operation histories with shrinking",
    },
    "C16": {
        "text": "Schedule exploration: one writer and 1-3 readers on real threads under the seeded baton scheduler with preemption at "
                "basic-block granularity inside the library. Every read is checked for linearizability against the totally ordered writer "
                "states; the same plans run in a ThreadSanitizer build in which the scheduler is invisible to TSan, so a report on table "
                "state is a race not ordered by the library's own locks. Sampling of schedules, not enumeration.",
        "design_ref": "§8 C16, §3.3", "note": "single writer; TSan happens-before detection on the explored schedules only; accesses made through libc mem* interceptors are not tracked",
        "technique": _SIM + "seeded schedule exploration, linearizability checker + ThreadSanitizer as happens-before oracle",
    },
    "C18": {
        "level_override": "fault_enumeration",
        "text": "Enumeration of allocation sites per base history: the k-th allocation call fails, for every k (thorough) or a stratified sample "
                "(quick), each fault attached to the operation it hits so that failing plans shrink. Oracles: no crash, error => no partial "
                "effect, later operations conform to the model; failure-free runs must return every block to the configured allocator "
                "(libc free of a configured block is intercepted) and leave the ledger empty.",
        "design_ref": "§8 C18", "note": "one failing allocation per run; base histories are sampled; known finding: unchecked allocations inside third-party tommy_hashlin",
        "technique": _SIM + "exhaustive single-fault injection over the allocation calls of sampled histories",
    },
    "C03": {
        "text": "Whole-system simulation of synchronisations: at every return of rtr_sync a reference walk over the exact bytes the simulated cache "
                "put on the wire decides whether the response had to succeed (then records = previous + announced - withdrawn, or exactly the "
                "announced set, and the serial is End of Data's) or to fail (then records unchanged and the next query unchanged, or all gone and "
                "a Reset Query); other sockets' records must be untouched. Deviations and transport faults are placed at chosen PDUs / calls. "
                "Two suites: seeded random conversations with combined faults, and a systematic single-fault enumeration: each fault-free base "
                "conversation is re-run with exactly one fault at every receive call x {error, EINTR}, every PDU position x 18 deviations, 25 cut "
                "offsets x {close, stall}, send faults (one-shot and sticky: the connection stays dead for writing), hang-up, silence, Cache Reset "
                "(all points in the thorough tier, a stratified sample in quick), plus seeded pairs of those points per base (150 quick, 1500 thorough).",
        "design_ref": "§8 C03", "note": "trusts the reference walk (harness/world_walk.cpp) and the cache model; rtr_sync observed through -Wl,--wrap",
        "technique": _SIM + "scripted cache with protocol/transport fault injection, reference-walk oracle at every rtr_sync return",
    },
    "C04": {
        "text": "Hostile byte streams (field edits, lying lengths, raw noise, cuts, three read chunkings) are fed to the real receive path inside "
                "the simulator built with ASan + UBSan(bounds,null) and assertions on; a crash, deadlock, busy loop or runaway run is a violation, "
                "malformed-length / unknown-type PDUs must never be applied nor end in success, and the same plan under maximal, 1-byte and random "
                "read chunking must give identical tables, socket-state sequence and sent bytes (metamorphic replay).",
        "design_ref": "§8 C04", "note": "sampling; hang detection = simulator deadlock/busy-loop/step/real-time watchdogs",
        "technique": _SIM + "hostile-stream generation + sanitizers + metamorphic chunking replay",
    },
    "C05": {
        "text": "A session oracle fed only by wire bytes, rtr_sync results and simulated time predicts every query (Reset vs Serial, session, serial "
                "incl. wrap-around values) across successes, failures, Cache Reset, No-Data, restarts, expiry and stop/start; responses with a "
                "foreign session id in Cache Response and/or End of Data must fail without touching the tables.",
        "design_ref": "§8 C05", "note": "trusts the session oracle; +-2 s band around expiry",
        "technique": _SIM + "wire oracle over multi-exchange conversations",
    },
    "C07": {
        "text": "Simulated clock makes expiry testable: the cache disappears for T seconds around the expire interval (also right after an "
                "interrupted reload); at the first query after a reconnect later than expire+2 s no record of that socket may exist and the query "
                "must be a Reset Query; after every stop (operator or failover) the socket's records must be gone, others untouched.",
        "design_ref": "§8 C07", "note": "earlier removal is not forbidden by the statement and not flagged",
        "technique": _SIM + "discrete-event clock, unreachability windows, table audit at reconnect and stop",
    },
    "C08": {
        "text": "Bounded liveness: after a generated fault phase the cache answers correctly with a fixed data set; the socket must be ESTABLISHED "
                "with exactly the cache's records within refresh+expire+4*retry+360 s of simulated time, and no run may deadlock, spin without "
                "reaching a scheduling point, or exceed its step budget. Runs whose fault phase made the client accept a well-formed but dishonest "
                "response are not judged.",
        "design_ref": "§8 C08", "note": "single faults enumerated per sampled base conversation (each followed by recovery), incl. sticky send failures (every write fails until the client reconnects); combinations sampled at random and as seeded pairs of enumerated points; bound uses the larger of configured and current intervals",
        "technique": _SIM + "fault phase then clean tail, progress-within-bound check on the simulated clock",
    },
    "C13": {
        "text": "Wire oracle on the version byte of every query across reconnects: starts at 1, only decreases, each decrease needs a licensed "
                "trigger (first PDU of a connection in v0, Unsupported-Version report with a lower supported version, hang-up before any session) "
                "and each trigger must produce the decrease with an immediate reconnect; any other PDU of a foreign version must be answered with "
                "code 8 and must not be applied; End of Data only in the negotiated version's format.",
        "design_ref": "§8 C13", "note": "a hang-up after a non-answer (e.g. only a Serial Notify) is treated as permitting but not demanding the downgrade",
        "technique": _SIM + "wire oracle over version-negotiation conversations",
    },
    "C14": {
        "text": "Every byte the client hands to the transport is parsed (under short writes): complete PDUs, allowed types, length field = bytes "
                "sent <= 3248, consistent Error Report inner lengths; for every violation the reference walk detects, the Error Report must exist "
                "(while the connection is writable), carry an allowed code and encapsulate a byte-exact prefix of the offending PDU as the cache "
                "sent it; Error Reports are never answered.",
        "design_ref": "§8 C14", "note": "the differential replay for uninitialised bytes is not built yet; stale-buffer echoes are caught by the prefix check",
        "technique": _SIM + "wire parser + reference walk of offending PDU, per violation class",
    },
    "C17": {
        "text": "After every accepted End of Data the three public interval fields are compared with what the configured mode prescribes "
                "(boundary values and random 32-bit values, all four modes, v0 never changes them); while established, a consumed Serial Notify must "
                "be followed by a Serial Query with no simulated time elapsing, polls must come no later than refresh (+2 s), and the receive "
                "timeout handed to the transport must not exceed the remaining refresh time.",
        "design_ref": "§8 C17", "note": "init-time range rejection through rtr_mgr_init is covered by the C15 check once built",
        "technique": _SIM + "interval oracle at rtr_sync return + timing oracle on the simulated clock",
    },
    "C15": {
        "text": "Manager failover under simulation: configurations of 1-3 groups, cache scripts that drive sockets through ERROR and ESTABLISHED in "
                "many orders, operator add/remove-group sequences, and configurations that rtr_mgr_init must reject. Oracles are the statements "
                "themselves, evaluated on every rtr_mgr_status_fp report and, for their consequences (less preferred groups shut down, best closed "
                "group started), when the reporting socket thread is back in its state machine. Manager callbacks are serialised (no voluntary task "
                "switch inside one), because the property quantifies over sequences of state changes, not over interleavings of two callbacks.",
        "design_ref": "§8 C15", "note": "sampling of state-change sequences; the unsynchronised group status that two simultaneous callbacks can race on is outside this property's quantifier and not judged",
        "technique": _SIM + "scripted caches drive socket state sequences; statement oracles on status reports",
    },
    "C06": {
        "text": "Schedule exploration of full reloads: reader tasks are released at every byte delivery of a reload and run batches of "
                "rtr_mgr_validate / rtr_mgr_get_spki under basic-block-granularity preemption inside copy_except_socket, the per-PDU application to the "
                "shadow tables, the swaps, notify_diff and shadow destruction; each answer must be explained by complete-OLD or complete-NEW (plus the "
                "other cache's records), never new-then-old per reader and table, NEW after success / OLD after failure. The same plans run in the "
                "ThreadSanitizer build where the scheduler is invisible to TSan.",
        "design_ref": "§8 C06", "note": "sampling of schedules; cross-table order (prefix table swapped before key table) is not demanded",
        "technique": _SIM + "seeded schedule exploration with guard-level preemption, old-or-new oracle + ThreadSanitizer",
    },
}
