#!/bin/bash
# thorough tier of every check once (seed given as $1); one line per property
cd "$(dirname "$0")"
python3 build.py asan tsan >/dev/null || exit 2
for p in C01 C02 C03 C04 C05 C06 C07 C08 C09 C10 C13 C14 C15 C16 C17 C18; do
  out=$(VERIF_SEED=${1:-11} VERIF_OUT=/tmp/soakt-out-$$ ./check $p --tier thorough 2>&1 | grep -E "VIOLATION|OK |MACH|^  C" | cut -c1-240 | head -4 | tr '\n' '|')
  echo "thorough seed=${1:-11} $p $out"
done
