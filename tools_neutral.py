#!/usr/bin/env python3
"""tools_neutral.py <patch.diff> [props...]
False-alarm test: apply a change that is believed to preserve every property to a scratch worktree of /repo's HEAD, check that
the baseline suite still passes, and run the quick tier of the given checks (default: all claimed) against it. Every VIOLATION
is either an over-strict oracle (to be corrected) or a property the change breaks after all (to be argued from the replay).
The worktree is removed afterwards."""
import json
import os
import shutil
import subprocess
import sys
import time

VERIF = os.path.dirname(os.path.abspath(__file__))
WT = "/tmp/neutwt-%d" % os.getpid()
OUT = "/tmp/neutout-%d" % os.getpid()
ALL = "C01 C02 C03 C04 C05 C06 C07 C08 C09 C10 C13 C14 C15 C16 C17 C18".split()


def sh(cmd, **kw):
    return subprocess.run(cmd, shell=True, stdout=subprocess.PIPE, stderr=subprocess.STDOUT, text=True, **kw)


def main():
    patch = os.path.abspath(sys.argv[1])
    props = sys.argv[2:] or ALL
    keep = os.environ.get("KEEP_REPLAYS")
    sh("git -C /repo worktree remove --force %s" % WT)
    sh("git -C /repo worktree add -q --detach %s HEAD" % WT)
    rc = 0
    try:
        r = sh("git -C %s apply %s" % (WT, patch))
        if r.returncode != 0:
            print("patch does not apply:\n" + r.stdout[-1500:])
            return 2
        sh("cd %s && cmake -G Ninja -B _build -DCMAKE_BUILD_TYPE=RelWithDebInfo . >/dev/null 2>&1 && cmake --build _build 2>&1 | tail -3" % WT)
        t = sh("ctest --test-dir %s/_build -j8 --timeout 300 2>&1 | tail -8" % WT)
        failed = sorted(l.split("-")[1].split()[0] for l in t.stdout.splitlines() if l.strip().startswith(tuple("0123456789")) and " - " in l)
        print("suite failed:", failed, "(expected: the two Internet tests)")
        env = dict(os.environ, VERIF_REPO=WT, VERIF_OUT=OUT)
        for p in props:
            t0 = time.time()
            c = subprocess.run([os.path.join(VERIF, "check"), p, "--tier", "quick"], env=env, stdout=subprocess.PIPE, stderr=subprocess.PIPE, text=True)
            lines = [l for l in (c.stdout + c.stderr).splitlines() if l.startswith(("VIOLATION", "  " + p, "OK ", "MACHINERY"))]
            print("%s exit %d in %.0fs" % (p, c.returncode, time.time() - t0))
            if c.returncode != 0:
                rc = 1
                for l in lines[:8]:
                    print("    " + l[:300])
                if keep:
                    os.makedirs(keep, exist_ok=True)
                    for f in os.listdir(os.path.join(OUT, "replays")) if os.path.isdir(os.path.join(OUT, "replays")) else []:
                        if f.startswith(p):
                            shutil.copy(os.path.join(OUT, "replays", f), keep)
        print(json.dumps({"patch": patch, "alarms": rc}))
    finally:
        if not os.environ.get("KEEP_WT"):
            sh("git -C /repo worktree remove --force %s" % WT)
            shutil.rmtree(WT, ignore_errors=True)
        else:
            print("worktree kept at", WT)
        shutil.rmtree(OUT, ignore_errors=True)
    return rc


if __name__ == "__main__":
    sys.exit(main())
