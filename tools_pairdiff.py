#!/usr/bin/env python3
"""Debug helper: run both plans of a metamorphic replay with notes on and show the first differing notes."""
import json, subprocess, sys
sys.path.insert(0, '/verif')
import build
d = json.load(open(sys.argv[1]))
b = build.build(d.get('variant') or 'asan')
outs = []
for k in ('a', 'b'):
    p = d['plan'][k]; p['debug'] = 1
    r = subprocess.run([b], input=json.dumps({"cmd": "runplan", "id": k, "plan": p}) + "\n", stdout=subprocess.PIPE, text=True).stdout
    res = [json.loads(l) for l in r.splitlines() if l.startswith('{') and '"start"' not in l][-1]
    outs.append([n.split('] ', 1)[-1] if False else n for n in res.get('notes', [])])
    print(k, res.get('digests'), len(outs[-1]))
import re
strip = lambda s: re.sub(r'task=\d+', '', s)
for i, (x, y) in enumerate(zip(outs[0], outs[1])):
    if strip(x) != strip(y):
        print('first difference at note', i)
        for l in outs[0][max(0, i - 3):i + 4]: print(' A', l[:400])
        for l in outs[1][max(0, i - 3):i + 4]: print(' B', l[:400])
        break
else:
    print('notes identical up to', min(len(outs[0]), len(outs[1])))
