// Simulated RTR cache (RFC 6810/8210 server side) + scripted deviations. DESIGN §4.3, §5.2.
#include "world.hpp"

namespace {

SpkiRec key_from(const J &j, int si)
{
	return SpkiRec::make((uint32_t)j[(size_t)0].num(), (int)j[(size_t)1].num(), (int)j[(size_t)2].num(), si);
}

void snapshot(Peer &p)
{
	p.hist[p.serial] = {p.data, p.keys};
	while (p.hist.size() > 12)
		p.hist.erase(p.hist.begin());
}

void apply_edits(World &W, Peer &p, const J &edits)
{
	bool changed = false;
	for (size_t i = 0; i < edits.size(); i++) {
		const J &e = edits[i];
		std::string k = e[(size_t)0].str();
		if (k == "add") {
			PfxRec r = PfxRec::from(e[(size_t)1]);
			r.src = p.si;
			changed |= p.data.insert(r).second;
		} else if (k == "del") {
			PfxRec r = PfxRec::from(e[(size_t)1]);
			r.src = p.si;
			changed |= p.data.erase(r) > 0;
		} else if (k == "delany") { // delete the n-th record, whatever it is
			if (!p.data.empty()) {
				auto it = p.data.begin();
				std::advance(it, (long)((uint64_t)e[(size_t)1].num() % p.data.size()));
				p.data.erase(it);
				changed = true;
			}
		} else if (k == "addkey") {
			SpkiRec r = key_from(e[(size_t)1], p.si);
			W.ski_universe.insert(r.ski);
			changed |= p.keys.insert(r).second;
		} else if (k == "delkey") {
			changed |= p.keys.erase(key_from(e[(size_t)1], p.si)) > 0;
		} else if (k == "delanykey") {
			if (!p.keys.empty()) {
				auto it = p.keys.begin();
				std::advance(it, (long)((uint64_t)e[(size_t)1].num() % p.keys.size()));
				p.keys.erase(it);
				changed = true;
			}
		} else if (k == "bump") {
			changed = true;
		} else if (k == "restart") { // cache restarts: new session, serial history lost
			p.session = (uint16_t)e[(size_t)1].num();
			p.serial = (uint32_t)(e.size() > 2 ? e[(size_t)2].num() : 0);
			p.hist.clear();
			snapshot(p);
			changed = false;
		} else if (k == "drophist") {
			// changes made earlier in this list belong to a serial of their own: an honest cache never lets an old
			// serial stand for newer data
			if (changed) {
				p.serial++;
				changed = false;
			}
			p.hist.clear();
			snapshot(p);
		} else if (k == "nodata") {
			p.nodata = e[(size_t)1].num() != 0;
		} else if (k == "vmax") {
			p.vmax = (int)e[(size_t)1].num() ? 1 : 0;
		} else if (k == "serial") {
			// a jump of the serial number with the history gone; the session changes with it when data changed in the
			// same step, so that no client can hold this (session, serial) for older data
			if (changed) {
				p.session = (uint16_t)(p.session + 1);
				changed = false;
			}
			p.serial = (uint32_t)e[(size_t)1].num();
			p.hist.clear();
			snapshot(p);
		}
	}
	if (changed) {
		p.serial++;
		snapshot(p);
	}
}

void queue_bytes(World &W, Peer &p, const Bytes &b, uint64_t first_delay_ns);
Bytes fresh_prefix_pdu(uint8_t ver, int si, uint32_t tag, uint8_t flags);

void apply_pending(World &W, Peer &p)
{
	uint64_t now = sim_now_ns();
	for (size_t i = 0; i < p.pending.size();) {
		if (p.pending[i]["t"].u64() <= now) {
			J e = p.pending[i];
			p.pending.erase(p.pending.begin() + (long)i);
			apply_edits(W, p, e["edits"]);
			// unsolicited Serial Notify, only on the connection it was scheduled on
			if (e.geti("send", 0) && p.open && !p.peer_closed && (int)e.geti("gen") == p.gen) {
				Bytes b = e.gets("kind") == "stray" ? fresh_prefix_pdu((uint8_t)e.geti("ver"), p.si, 77, 1)
								     : pdu_serial_notify((uint8_t)e.geti("ver"), p.session, p.serial);
				uint64_t gap = (uint64_t)e.geti("gap_ms", 0) * 1000000ull;
				size_t stall_b = (size_t)e.geti("stall_b", 0);
				if (stall_b >= 1 && stall_b < 8) {
					// the path stalls in the middle of the PDU header: these bytes arrive, nothing follows on this
					// connection, and the cache drops it at the next query
					queue_bytes(W, p, Bytes(b.begin(), b.begin() + (long)stall_b), 1000000);
					p.stalled_gen = p.gen;
					W.ctx.count("fault_stall_inside_header");
				} else if (gap) { // header now, the rest later (a slow or congested path)
					Bytes head(b.begin(), b.begin() + 8), rest(b.begin() + 8, b.end());
					queue_bytes(W, p, head, 1000000);
					queue_bytes(W, p, rest, 1000000 + gap);
				} else
					queue_bytes(W, p, b, 1000000);
				W.ctx.count(e.gets("kind") == "stray" ? "stray_pdus_sent" : "notifies_sent");
			}
		} else
			i++;
	}
	cache_enter_clean_if_due(W, p);
}

void queue_bytes(World &W, Peer &p, const Bytes &b, uint64_t first_delay_ns)
{
	if (b.empty())
		return;
	uint64_t t = sim_now_ns() + first_delay_ns;
	if (!p.inq.empty() && p.inq.back().t > t)
		t = p.inq.back().t; // keep the stream in order
	size_t pos = 0;
	while (pos < b.size()) {
		size_t n = b.size() - pos;
		if (n > 16 && W.lat.chance(600))
			n = 1 + (size_t)W.lat.below(n);
		Seg s;
		s.t = t;
		s.data.assign(b.begin() + (long)pos, b.begin() + (long)(pos + n));
		p.inq.push_back(s);
		p.in_stream.insert(p.in_stream.end(), s.data.begin(), s.data.end());
		pos += n;
		t += W.lat.below(W.lat_jit_ns + 1);
	}
}

Bytes fresh_prefix_pdu(uint8_t ver, int si, uint32_t tag, uint8_t flags)
{
	PfxRec r;
	r.fam = 4;
	r.addr = (u128)(0xcb000000u | ((tag & 0xffff) << 8)) << 96;
	r.len = 24;
	r.maxlen = 24;
	r.asn = 0xDEAD0000u + tag;
	r.src = si;
	return pdu_prefix(ver, r, flags);
}

bool is_payload(const Bytes &b)
{
	// (raw / hostile answers can hold fragments of any size: only complete PDUs are edited in place)
	if (b.size() < 8)
		return false;
	if (b[1] == PDU_IPV4)
		return b.size() >= 20;
	if (b[1] == PDU_IPV6)
		return b.size() >= 32;
	if (b[1] == PDU_ROUTER_KEY)
		return b.size() >= 8 + SKI_SIZE + 4 + SPKI_SIZE;
	return false;
}

void mutate(World &W, Peer &p, Exchange &x, std::vector<Bytes> &pdus, const J &m, uint8_t rv, const Bytes &query)
{
	std::string k = m.gets("k");
	size_t n = pdus.size();
	size_t at = n ? (size_t)((uint64_t)m.geti("at") % n) : 0;
	W.ctx.count("mut_" + k);
	auto payload_index = [&](size_t start) -> long {
		for (size_t q = 0; q < n; q++) {
			size_t i = (start + q) % n;
			if (is_payload(pdus[i]))
				return (long)i;
		}
		return -1;
	};
	auto find_type = [&](int type) -> long {
		for (size_t i = 0; i < n; i++)
			if (pdus[i].size() >= (type == PDU_EOD ? 12u : 8u) && pdus[i][1] == type)
				return (long)i;
		return -1;
	};
	long eod = find_type(PDU_EOD), cr = find_type(PDU_CACHE_RESPONSE);
	size_t ins_lo = cr >= 0 ? (size_t)cr + 1 : 0, ins_hi = eod >= 0 ? (size_t)eod : n;
	size_t ins = ins_lo + (ins_hi > ins_lo ? (size_t)((uint64_t)m.geti("at") % (ins_hi - ins_lo + 1)) : 0);
	if (k == "dup") {
		long i = payload_index(at);
		Bytes d;
		if (i >= 0 && ((pdus[(size_t)i][1] == PDU_ROUTER_KEY ? pdus[(size_t)i][2] : pdus[(size_t)i][8]) == 1)) {
			d = pdus[(size_t)i];
		} else if (x.qtype == 1 && !x.base_pfx.empty()) {
			auto it = x.base_pfx.begin();
			std::advance(it, (long)((uint64_t)m.geti("at") % x.base_pfx.size()));
			d = pdu_prefix(rv, *it, 1);
		} else if (x.qtype == 1 && !x.base_spki.empty() && rv >= 1) {
			d = pdu_router_key(rv, *x.base_spki.begin(), 1);
		} else {
			d = fresh_prefix_pdu(rv, p.si, 7, 1);
			pdus.insert(pdus.begin() + (long)ins, d);
		}
		pdus.insert(pdus.begin() + (long)std::min(ins_hi, pdus.size()), d);
	} else if (k == "unk") {
		pdus.insert(pdus.begin() + (long)ins, fresh_prefix_pdu(rv, p.si, (uint32_t)m.geti("tag", 9), 0));
	} else if (k == "flags") {
		long i = payload_index(at);
		if (i >= 0) {
			Bytes &b = pdus[(size_t)i];
			b[b[1] == PDU_ROUTER_KEY ? 2 : 8] = (uint8_t)m.geti("v", 2);
		}
	} else if (k == "zero") {
		long i = payload_index(at);
		if (i >= 0) {
			Bytes &b = pdus[(size_t)i];
			b[b[1] == PDU_ROUTER_KEY ? 3 : 11] = (uint8_t)m.geti("v", 1);
		}
	} else if (k == "sess_cr") {
		if (cr >= 0)
			set16(pdus[(size_t)cr], 2, (uint16_t)(get16(&pdus[(size_t)cr][2]) ^ (uint16_t)(m.geti("v", 1) | 1)));
	} else if (k == "sess_eod") {
		if (eod >= 0)
			set16(pdus[(size_t)eod], 2, (uint16_t)(get16(&pdus[(size_t)eod][2]) ^ (uint16_t)(m.geti("v", 1) | 1)));
	} else if (k == "sess_both") {
		uint16_t d = (uint16_t)(m.geti("v", 1) | 1);
		if (cr >= 0)
			set16(pdus[(size_t)cr], 2, (uint16_t)(get16(&pdus[(size_t)cr][2]) ^ d));
		if (eod >= 0)
			set16(pdus[(size_t)eod], 2, (uint16_t)(get16(&pdus[(size_t)eod][2]) ^ d));
	} else if (k == "ver") {
		if (n && !pdus[at].empty())
			pdus[at][0] = (uint8_t)m.geti("v", 0);
	} else if (k == "verall") {
		for (auto &b : pdus)
			if (b.size() >= 8)
				b[0] = (uint8_t)m.geti("v", 0);
	} else if (k == "len") {
		if (n && pdus[at].size() >= 8)
			set32(pdus[at], 4, (uint32_t)m.geti("v", 7));
	} else if (k == "type") {
		if (n && pdus[at].size() >= 8)
			pdus[at][1] = (uint8_t)m.geti("v", 5);
	} else if (k == "byte") { // arbitrary field value inside PDU `at`
		if (n && !pdus[at].empty()) {
			size_t off = (size_t)((uint64_t)m.geti("off") % pdus[at].size());
			pdus[at][off] = (uint8_t)m.geti("v", 255);
		}
	} else if (k == "ins") {
		std::string what = m.gets("what", "notify");
		Bytes b;
		if (what == "notify")
			b = pdu_serial_notify(rv, p.session, p.serial);
		else if (what == "squery") {
			b = hdr(rv, PDU_SERIAL_QUERY, p.session, 12);
			put32(b, p.serial);
		} else if (what == "rquery")
			b = hdr(rv, PDU_RESET_QUERY, 0, 8);
		else if (what == "creset")
			b = pdu_cache_reset(rv);
		else if (what == "cresp")
			b = pdu_cache_response(rv, p.session);
		else if (what == "eod")
			b = pdu_eod(rv, p.session, p.serial, p.iv[0], p.iv[1], p.iv[2]);
		else if (what == "err")
			b = pdu_error(rv, (uint16_t)m.geti("code", 1), Bytes(), m.gets("text", "x"));
		else if (what == "unk")
			b = hdr(rv, (uint8_t)m.geti("v", 5), 0, 8);
		size_t where = (size_t)((uint64_t)m.geti("at") % (n + 1));
		pdus.insert(pdus.begin() + (long)where, b);
	} else if (k == "drop") {
		if (n)
			pdus.erase(pdus.begin() + (long)at);
	} else if (k == "dropeod") {
		if (eod >= 0)
			pdus.erase(pdus.begin() + eod);
	} else if (k == "annwd") { // valid: announce X, later withdraw X
		Bytes a = fresh_prefix_pdu(rv, p.si, (uint32_t)m.geti("tag", 21), 1), wd = fresh_prefix_pdu(rv, p.si, (uint32_t)m.geti("tag", 21), 0);
		pdus.insert(pdus.begin() + (long)ins, a);
		eod = -1;
		for (size_t i = 0; i < pdus.size(); i++)
			if (pdus[i].size() >= 12 && pdus[i][1] == PDU_EOD)
				eod = (long)i;
		pdus.insert(pdus.begin() + (eod >= 0 ? eod : (long)pdus.size()), wd);
	} else if (k == "annwdkey") { // the same with a router key: a fresh one, or (reset answers) one the client holds already
		if (rv >= 1) {
			SpkiRec key = SpkiRec::make(4100000000u + (uint32_t)(m.geti("tag", 21) % 1000), 60 + (int)(m.geti("tag", 21) % 3), 70, p.si);
			if (m.geti("old", 0) && x.qtype == 2 && !x.base_spki.empty()) {
				auto it = x.base_spki.begin();
				std::advance(it, (long)((uint64_t)m.geti("at") % x.base_spki.size()));
				key = *it;
			}
			W.ski_universe.insert(key.ski); // (the table is enumerated by looking up every SKI that was ever on the wire)
			Bytes a = pdu_router_key(rv, key, 1), wd = pdu_router_key(rv, key, 0);
			pdus.insert(pdus.begin() + (long)ins, a);
			eod = -1;
			for (size_t i = 0; i < pdus.size(); i++)
				if (pdus[i].size() >= 12 && pdus[i][1] == PDU_EOD)
					eod = (long)i;
			pdus.insert(pdus.begin() + (eod >= 0 ? eod : (long)pdus.size()), wd);
		}
	} else if (k == "wdann") { // valid on a delta: withdraw a present record, later announce it again
		if (x.qtype == 1 && !x.base_pfx.empty()) {
			auto it = x.base_pfx.begin();
			std::advance(it, (long)((uint64_t)m.geti("at") % x.base_pfx.size()));
			// only if the honest delta does not touch this record
			bool touched = false;
			Bytes a = pdu_prefix(rv, *it, 1), wd = pdu_prefix(rv, *it, 0);
			for (auto &b : pdus)
				if (b.size() == a.size() && std::equal(b.begin() + 9, b.end(), a.begin() + 9))
					touched = true;
			if (!touched) {
				pdus.insert(pdus.begin() + (long)ins_lo, wd);
				eod = -1;
				for (size_t i = 0; i < pdus.size(); i++)
					if (pdus[i].size() >= 2 && pdus[i][1] == PDU_EOD)
						eod = (long)i;
				pdus.insert(pdus.begin() + (eod >= 0 ? eod : (long)pdus.size()), a);
			}
		}
	} else if (k == "eodfmt") {
		if (eod >= 0) {
			Bytes &b = pdus[(size_t)eod];
			uint8_t ver = b[0];
			uint16_t sess = get16(&b[2]);
			uint32_t sn = get32(&b[8]);
			Bytes nb = pdu_eod(ver ? 0 : 1, sess, sn, p.iv[0], p.iv[1], p.iv[2]);
			nb[0] = ver; // other version's format under this version byte
			b = nb;
		}
	} else if (k == "swap") {
		if (n >= 2) {
			size_t j = (size_t)((uint64_t)m.geti("with") % n);
			std::swap(pdus[at], pdus[j]);
		}
	} else if (k == "errpdu") { // Error Report with chosen (possibly lying) inner lengths
		Bytes b = pdu_error((uint8_t)m.geti("ver", rv), (uint16_t)m.geti("code", 0), m.geti("enc", 1) ? query : Bytes(), m.gets("text", ""));
		if (m.has("enc_len"))
			set32(b, 8, (uint32_t)m.geti("enc_len"));
		if (m.has("len"))
			set32(b, 4, (uint32_t)m.geti("len"));
		size_t where = (size_t)((uint64_t)m.geti("at") % (n + 1));
		pdus.insert(pdus.begin() + (long)where, b);
	}
}

void respond(World &W, Peer &p, Exchange &x, const Bytes &query)
{
	apply_pending(W, p);
	J ex;
	if (p.stalled_gen == p.gen) { // (does not consume a scripted exchange)
		ex = J::obj();
		ex["resp"] = "hangup";
		x.tail = p.xi >= p.script.size();
	} else if (p.xi < p.script.size()) {
		ex = p.script[p.xi++];
		x.tail = false;
	} else {
		ex = J::obj();
		x.tail = true;
	}
	x.plan = ex;
	x.alloc_at_query = simalloc_calls();
	x.script_index = (x.tail || p.stalled_gen == p.gen) ? -1 : (int)p.xi - 1;
	if (ex.has("alloc_fail_k")) { // C18: the k-th allocation from here on fails (fault attached to this exchange)
		simalloc_fail_at(simalloc_calls() + (uint64_t)ex.geti("alloc_fail_k", 1));
		W.ctx.prop_override = "C18";
		W.ctx.count("fault_alloc_fail_armed");
	}
	if (ex.has("pre"))
		apply_edits(W, p, ex["pre"]);
	std::string resp = ex.gets("resp", "auto");
	uint8_t qv = (uint8_t)x.qver;
	uint8_t rv = qv;
	if (ex.has("rv") && ex.geti("rv") < (int64_t)qv)
		rv = (uint8_t)ex.geti("rv"); // a cache may answer in a lower version than it was asked in
	std::vector<Bytes> pdus;
	bool closes = ex.geti("close", 0) != 0;
	uint32_t iv[3] = {p.iv[0], p.iv[1], p.iv[2]};
	if (ex.has("iv"))
		for (size_t i = 0; i < 3; i++)
			iv[i] = (uint32_t)ex["iv"][i].num();
	if (resp == "auto") {
		if ((int)qv > p.vmax) {
			rv = (uint8_t)p.vmax;
			pdus.push_back(pdu_error(rv, 4, query, "unsupported version"));
			closes = true;
		} else if (x.qtype == 2) {
			if (p.nodata)
				pdus.push_back(pdu_error(rv, 2, query, "no data"));
			else {
				pdus.push_back(pdu_cache_response(rv, p.session));
				for (auto &r : p.data)
					pdus.push_back(pdu_prefix(rv, r, 1));
				if (rv >= 1)
					for (auto &r : p.keys)
						pdus.push_back(pdu_router_key(rv, r, 1));
				pdus.push_back(pdu_eod(rv, p.session, p.serial, iv[0], iv[1], iv[2]));
			}
		} else {
			if (p.nodata)
				pdus.push_back(pdu_error(rv, 2, query, "no data"));
			else if (x.qsession != p.session || !p.hist.count(x.qserial))
				pdus.push_back(pdu_cache_reset(rv));
			else {
				auto &old = p.hist[x.qserial];
				pdus.push_back(pdu_cache_response(rv, p.session));
				for (auto &r : p.data)
					if (!old.first.count(r))
						pdus.push_back(pdu_prefix(rv, r, 1));
				for (auto &r : old.first)
					if (!p.data.count(r))
						pdus.push_back(pdu_prefix(rv, r, 0));
				if (rv >= 1) {
					for (auto &r : p.keys)
						if (!old.second.count(r))
							pdus.push_back(pdu_router_key(rv, r, 1));
					for (auto &r : old.second)
						if (!p.keys.count(r))
							pdus.push_back(pdu_router_key(rv, r, 0));
				}
				pdus.push_back(pdu_eod(rv, p.session, p.serial, iv[0], iv[1], iv[2]));
			}
		}
		// wire order of the payload is arbitrary
		if (pdus.size() > 3 && ex.has("order")) {
			Rng o(ex["order"].u64());
			for (size_t i = pdus.size() - 2; i > 1; i--)
				std::swap(pdus[i], pdus[1 + o.below(i)]);
		}
	} else if (resp == "reset") {
		pdus.push_back(pdu_cache_reset(rv));
	} else if (resp == "err") {
		pdus.push_back(pdu_error((uint8_t)ex.geti("ver", rv), (uint16_t)ex.geti("code", 2), ex.geti("enc", 1) ? query : Bytes(), ex.gets("text", "")));
	} else if (resp == "hangup") {
		closes = true;
	} else if (resp == "silent") {
	} else if (resp == "raw") {
		pdus.push_back(unhex(ex.gets("hex")));
	}
	const J &muts = ex["muts"];
	W.note("respond s%d x=%d q=%s qserial=%u -> cache session=%u serial=%u data=%zu keys=%zu hist=%zu pdus=%zu pending=%zu", p.si, x.id,
	       x.qtype == 2 ? "reset" : "serial", x.qserial, p.session, p.serial, p.data.size(), p.keys.size(), p.hist.size(), pdus.size(), p.pending.size());
	if (W.debug) {
		std::string ks;
		auto kid = [](const SpkiRec &r) {
			uint32_t h = r.asn;
			for (auto c : r.ski)
				h = h * 31 + c;
			for (auto c : r.spki)
				h = h * 31 + c;
			char b[16];
			snprintf(b, sizeof(b), "%08x", h);
			return std::string(b);
		};
		for (auto &r : p.keys)
			ks += " " + kid(r);
		ks += " | sent:";
		for (auto &b : pdus)
			if (b.size() >= 123 && b[1] == PDU_ROUTER_KEY) {
				SpkiRec r;
				r.asn = get32(&b[8 + SKI_SIZE]);
				memcpy(r.ski.data(), &b[8], SKI_SIZE);
				memcpy(r.spki.data(), &b[8 + SKI_SIZE + 4], SPKI_SIZE);
				ks += std::string(b[2] ? " +" : " -") + kid(r);
			}
		W.note("keys s%d:%s", p.si, ks.c_str());
	}
	for (size_t i = 0; i < muts.size(); i++)
		mutate(W, p, x, pdus, muts[i], rv, query);
	Bytes all;
	for (auto &b : pdus)
		all.insert(all.end(), b.begin(), b.end());
	p.faults = J::arr();
	const J &faults = ex["faults"];
	for (size_t i = 0; i < faults.size(); i++) {
		const J &f = faults[i];
		if (f.gets("kind") == "cut") {
			size_t b = all.empty() ? 0 : (size_t)((uint64_t)f.geti("b") % (all.size() + 1));
			all.resize(b);
			if (f.geti("close", 1))
				closes = true;
			W.ctx.count("fault_cut");
		} else
			p.faults.push(f);
	}
	x.scripted_faults = faults.size() > 0;
	x.bytes = all;
	x.closes = closes;
	x.start_off = p.in_stream.size();
	if (ex.has("hold") && all.size() > 1) {
		// a rendezvous delay: the last bytes of this answer stay in the network until another socket has (almost) read its
		// own answer, at the latest for max_s seconds
		const J &h = ex["hold"];
		size_t tail = (size_t)h.geti("tail", 4);
		if (tail < 1)
			tail = 1;
		if (tail >= all.size())
			tail = all.size() - 1;
		uint64_t d0 = W.lat_min_ns + W.lat.below(W.lat_jit_ns + 1);
		queue_bytes(W, p, Bytes(all.begin(), all.end() - (long)tail), d0);
		size_t n0 = p.inq.size();
		queue_bytes(W, p, Bytes(all.end() - (long)tail, all.end()), d0 + (uint64_t)h.geti("max_s", 30) * SIM_NS);
		int id = (int)W.holds.size() + 1;
		for (size_t i = n0; i < p.inq.size(); i++)
			p.inq[i].hold = id;
		W.holds.push_back({id, p.si, (int)h.geti("sock", 0), (int)h.geti("xi", 0), (size_t)h.geti("before", 0), false});
		W.ctx.count("fault_rendezvous_delay");
	} else
		queue_bytes(W, p, all, W.lat_min_ns + W.lat.below(W.lat_jit_ns + 1));
	if (ex.has("down_s")) { // the cache goes away after this answer
		closes = true;
		x.closes = true;
		p.down_until = sim_now_ns() + (uint64_t)ex.geti("down_s") * SIM_NS;
		W.ctx.count("fault_unreachable");
	}
	if (closes)
		p.peer_closed = true;
	// scheduled data change + Serial Notify
	if (ex.has("notify")) {
		const J &nf = ex["notify"];
		uint64_t t = sim_now_ns() + (uint64_t)nf.geti("after_s", 5) * SIM_NS + W.lat_min_ns;
		J pend = J::obj();
		pend["t"] = (long long)t;
		pend["edits"] = nf["edits"];
		pend["send"] = (nf.geti("send", 1) && !closes) ? 1 : 0;
		pend["gen"] = p.gen;
		pend["ver"] = (int)rv;
		pend["kind"] = nf.gets("kind", "notify");
		pend["gap_ms"] = nf.geti("gap_ms", 0);
		pend["stall_b"] = nf.geti("stall_b", 0);
		p.pending.push_back(pend);
	}
	cache_enter_clean_if_due(W, p);
}

} // namespace

void cache_enter_clean_if_due(World &W, Peer &p)
{
	(void)W;
	if (!p.clean && p.xi >= p.script.size() && p.pending.empty() && sim_now_ns() >= p.down_until) {
		p.oi = p.opens.size(); // the fault phase is over: connection attempts succeed from now on
		p.clean = true;
		p.t_clean = sim_now_ns();
	}
}

void cache_init(World &W, Peer &p, const J &jc)
{
	p.session = (uint16_t)jc.geti("session", 1);
	p.serial = (uint32_t)jc.geti("serial", 0);
	p.vmax = (int)jc.geti("vmax", 1);
	p.nodata = jc.geti("nodata", 0) != 0;
	const J &d = jc["data"];
	for (size_t i = 0; i < d.size(); i++) {
		PfxRec r = PfxRec::from(d[i]);
		r.src = p.si;
		p.data.insert(r);
	}
	const J &k = jc["keys"];
	for (size_t i = 0; i < k.size(); i++) {
		SpkiRec r = key_from(k[i], p.si);
		W.ski_universe.insert(r.ski);
		p.keys.insert(r);
	}
	if (jc.has("iv"))
		for (size_t i = 0; i < 3; i++)
			p.iv[i] = (uint32_t)jc["iv"][i].num();
	p.script = jc["script"];
	if (p.script.t != J::ARR)
		p.script = J::arr();
	p.opens = jc["opens"];
	if (p.opens.t != J::ARR)
		p.opens = J::arr();
	snapshot(p);
}

void cache_on_connect(World &W, Peer &p)
{
	apply_pending(W, p);
}

void cache_poll(World &W, Peer &p)
{
	if (!p.pending.empty())
		apply_pending(W, p);
}

uint64_t cache_next_event(Peer &p)
{
	uint64_t t = UINT64_MAX;
	for (auto &e : p.pending)
		if (e["t"].u64() < t)
			t = e["t"].u64();
	return t;
}

void cache_on_client_bytes(World &W, Peer &p)
{
	for (;;) {
		size_t avail = p.out_stream.size() - p.out_parsed;
		if (avail < 8)
			return;
		const uint8_t *h = &p.out_stream[p.out_parsed];
		uint32_t len = get32(h + 4);
		if (len < 8 || len > 65536) {
			// cannot be framed: hand the header to the oracle once and stop parsing this connection
			oracle_on_client_pdu(W, p, h, 8);
			p.out_parsed = p.out_stream.size();
			return;
		}
		if (avail < len)
			return;
		Bytes pdu(h, h + len);
		p.out_parsed += len;
		oracle_on_client_pdu(W, p, pdu.data(), pdu.size());
		uint8_t type = pdu[1];
		if ((type == PDU_RESET_QUERY && len == 8) || (type == PDU_SERIAL_QUERY && len == 12)) {
			Exchange x;
			x.id = W.xid_next++;
			x.si = p.si;
			x.gen = p.gen;
			x.t_query = sim_now_ns();
			x.qtype = type;
			x.qver = pdu[0];
			x.qsession = get16(&pdu[2]);
			x.qserial = type == PDU_SERIAL_QUERY ? get32(&pdu[8]) : 0;
			x.out_off_after_query = p.out_parsed;
			p.recv_calls = p.send_calls = 0;
			oracle_on_query(W, p, x); // fills belief snapshot and base sets, checks C05/C07/C17
			respond(W, p, x, pdu);
			p.xs.push_back(x);
			p.cur_x = (int)p.xs.size() - 1;
		}
	}
}
