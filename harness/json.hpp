// Minimal JSON value (ints, bools, strings, arrays, insertion-ordered objects). No doubles: plans
// never need them, and integers keep replay exact.
#pragma once
#include <cstdint>
#include <cstdio>
#include <cstdlib>
#include <map>
#include <stdexcept>
#include <string>
#include <utility>
#include <vector>

struct J {
	enum T { NUL, BOOL, INT, STR, ARR, OBJ } t = NUL;
	int64_t i = 0;
	std::string s;
	std::vector<J> a;
	std::vector<std::pair<std::string, J>> o;

	J() {}
	J(bool b) : t(BOOL), i(b) {}
	J(int v) : t(INT), i(v) {}
	J(unsigned v) : t(INT), i(v) {}
	J(long v) : t(INT), i(v) {}
	J(long long v) : t(INT), i(v) {}
	J(unsigned long v) : t(INT), i((int64_t)v) {}
	J(unsigned long long v) : t(INT), i((int64_t)v) {}
	J(const char *v) : t(STR), s(v) {}
	J(const std::string &v) : t(STR), s(v) {}
	static J arr() { J j; j.t = ARR; return j; }
	static J obj() { J j; j.t = OBJ; return j; }

	bool is_null() const { return t == NUL; }
	bool has(const std::string &k) const
	{
		for (auto &kv : o)
			if (kv.first == k)
				return true;
		return false;
	}
	const J &at(const std::string &k) const
	{
		static const J nul;
		for (auto &kv : o)
			if (kv.first == k)
				return kv.second;
		return nul;
	}
	J &operator[](const std::string &k)
	{
		if (t == NUL)
			t = OBJ;
		for (auto &kv : o)
			if (kv.first == k)
				return kv.second;
		o.emplace_back(k, J());
		return o.back().second;
	}
	const J &operator[](const std::string &k) const { return at(k); }
	J &operator[](size_t idx) { return a[idx]; }
	const J &operator[](size_t idx) const { return a[idx]; }
	size_t size() const { return t == ARR ? a.size() : t == OBJ ? o.size() : 0; }
	void push(J v)
	{
		if (t == NUL)
			t = ARR;
		a.push_back(std::move(v));
	}
	int64_t num(int64_t dflt = 0) const { return (t == INT || t == BOOL) ? i : dflt; }
	uint64_t u64(uint64_t dflt = 0) const { return (t == INT || t == BOOL) ? (uint64_t)i : dflt; }
	bool b(bool dflt = false) const { return (t == INT || t == BOOL) ? i != 0 : dflt; }
	const std::string &str() const { return s; }
	int64_t geti(const std::string &k, int64_t dflt = 0) const { return at(k).num(dflt); }
	std::string gets(const std::string &k, const std::string &dflt = "") const
	{
		const J &v = at(k);
		return v.t == STR ? v.s : dflt;
	}

	static void esc(std::string &out, const std::string &v)
	{
		out += '"';
		for (unsigned char c : v) {
			if (c == '"' || c == '\\') {
				out += '\\';
				out += (char)c;
			} else if (c < 0x20) {
				char b[8];
				snprintf(b, sizeof(b), "\\u%04x", c);
				out += b;
			} else
				out += (char)c;
		}
		out += '"';
	}
	void dump(std::string &out) const
	{
		switch (t) {
		case NUL: out += "null"; break;
		case BOOL: out += i ? "true" : "false"; break;
		case INT: out += std::to_string(i); break;
		case STR: esc(out, s); break;
		case ARR:
			out += '[';
			for (size_t k = 0; k < a.size(); k++) {
				if (k)
					out += ',';
				a[k].dump(out);
			}
			out += ']';
			break;
		case OBJ:
			out += '{';
			for (size_t k = 0; k < o.size(); k++) {
				if (k)
					out += ',';
				esc(out, o[k].first);
				out += ':';
				o[k].second.dump(out);
			}
			out += '}';
			break;
		}
	}
	std::string dump() const
	{
		std::string r;
		dump(r);
		return r;
	}

	// ---- parser ----
	struct P {
		const char *p, *e;
		void ws()
		{
			while (p < e && (*p == ' ' || *p == '\n' || *p == '\t' || *p == '\r'))
				p++;
		}
		[[noreturn]] void fail(const char *m) { throw std::runtime_error(std::string("json: ") + m); }
		J val()
		{
			ws();
			if (p >= e)
				fail("eof");
			char c = *p;
			if (c == '{') {
				p++;
				J j = J::obj();
				ws();
				if (p < e && *p == '}') {
					p++;
					return j;
				}
				for (;;) {
					ws();
					std::string k = strv();
					ws();
					if (p >= e || *p != ':')
						fail(":");
					p++;
					J v = val();
					j.o.emplace_back(std::move(k), std::move(v));
					ws();
					if (p < e && *p == ',') {
						p++;
						continue;
					}
					if (p < e && *p == '}') {
						p++;
						return j;
					}
					fail("obj");
				}
			}
			if (c == '[') {
				p++;
				J j = J::arr();
				ws();
				if (p < e && *p == ']') {
					p++;
					return j;
				}
				for (;;) {
					j.a.push_back(val());
					ws();
					if (p < e && *p == ',') {
						p++;
						continue;
					}
					if (p < e && *p == ']') {
						p++;
						return j;
					}
					fail("arr");
				}
			}
			if (c == '"')
				return J(strv());
			if (c == 't' && e - p >= 4) {
				p += 4;
				return J(true);
			}
			if (c == 'f' && e - p >= 5) {
				p += 5;
				return J(false);
			}
			if (c == 'n' && e - p >= 4) {
				p += 4;
				return J();
			}
			// integer (a fractional/exponent part is truncated)
			char *end = nullptr;
			long long v = strtoll(p, &end, 10);
			if (end == p)
				fail("value");
			p = end;
			while (p < e && (*p == '.' || *p == 'e' || *p == 'E' || *p == '+' || *p == '-' || (*p >= '0' && *p <= '9')))
				p++;
			return J(v);
		}
		std::string strv()
		{
			if (p >= e || *p != '"')
				fail("string");
			p++;
			std::string r;
			while (p < e && *p != '"') {
				if (*p == '\\' && p + 1 < e) {
					p++;
					switch (*p) {
					case 'n': r += '\n'; break;
					case 't': r += '\t'; break;
					case 'r': r += '\r'; break;
					case 'u': {
						if (e - p < 5)
							fail("\\u");
						unsigned v = (unsigned)strtoul(std::string(p + 1, 4).c_str(), nullptr, 16);
						r += (char)v;
						p += 4;
						break;
					}
					default: r += *p;
					}
					p++;
				} else
					r += *p++;
			}
			if (p >= e)
				fail("unterminated");
			p++;
			return r;
		}
	};
	static J parse(const std::string &txt)
	{
		P p{txt.data(), txt.data() + txt.size()};
		return p.val();
	}
};
