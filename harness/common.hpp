// Shared harness plumbing: PRNG wrapper, violation collection, counters.
#pragma once
#include "../sim/sim.h"
#include "../sim/simalloc.h"
#include "json.hpp"

#include <cstdarg>
#include <cstdint>
#include <cstdio>
#include <cstring>
#include <map>
#include <set>
#include <string>
#include <vector>

struct Rng {
	sim_rng r;
	explicit Rng(uint64_t seed = 1) { sim_rng_seed(&r, seed); }
	uint64_t next() { return sim_rng_next(&r); }
	uint64_t below(uint64_t n) { return sim_rng_below(&r, n); }
	// inclusive range
	int64_t range(int64_t lo, int64_t hi) { return lo + (int64_t)below((uint64_t)(hi - lo + 1)); }
	bool chance(unsigned permille) { return below(1000) < permille; }
	template <class T> const T &pick(const std::vector<T> &v) { return v[below(v.size())]; }
};

inline uint64_t seed_label(uint64_t seed, const char *label)
{
	uint64_t h = seed;
	for (const char *p = label; *p; p++)
		h = sim_mix64(h ^ (uint64_t)(unsigned char)*p);
	return sim_mix64(h);
}

struct Violation {
	std::string prop; // C01 ...
	std::string cls; // violation class (used to restrict shrinking to one class)
	std::string sig; // signature: class + site, matched against known_findings.json
	std::string msg;
	uint64_t step = 0, t_ns = 0;
};

// Result of one run, filled by oracles.
struct RunCtx {
	std::vector<Violation> viols;
	std::map<std::string, uint64_t> counters; // probes, fault fired counts, audit counts
	std::vector<std::string> notes;
	bool keep_notes = false; // replay --trace: violations are also written into the notes at the point they are found
	bool nontrivial = false;
	// when an allocation failure was injected, every divergence is a C18 matter ("contained")
	std::string prop_override;
	J extra = J::obj(); // free-form per-run data returned to the driver (e.g. allocations per op)
	void viol(const char *prop, const std::string &cls, const std::string &sig, const char *fmt, ...)
		__attribute__((format(printf, 5, 6)))
	{
		if (viols.size() >= 16)
			return;
		char buf[1024];
		va_list ap;
		va_start(ap, fmt);
		vsnprintf(buf, sizeof(buf), fmt, ap);
		va_end(ap);
		Violation v;
		v.prop = prop;
		v.cls = cls;
		v.sig = sig;
		if (!prop_override.empty() && v.prop != prop_override) {
			v.cls = "after-alloc-failure-" + v.prop + "-" + cls;
			v.sig = prop_override + ":after-alloc-failure:" + sig;
			v.prop = prop_override;
		}
		v.msg = buf;
		v.step = sim_steps();
		v.t_ns = sim_now_ns();
		viols.push_back(v);
		if (keep_notes) {
			char nb[700];
			snprintf(nb, sizeof(nb), "[t=%llu.%03llu task=%d] VIOLATION %s: %.500s", (unsigned long long)(v.t_ns / 1000000000ull),
				 (unsigned long long)(v.t_ns / 1000000 % 1000), sim_self(), v.sig.c_str(), buf);
			notes.push_back(nb);
		}
		sim_log(EV_OBS, 0xdead, viols.size());
	}
	void count(const std::string &k, uint64_t n = 1) { counters[k] += n; }
};

extern RunCtx *g_ctx;

static inline std::string hex64(uint64_t v)
{
	char b[24];
	snprintf(b, sizeof(b), "%016llx", (unsigned long long)v);
	return b;
}
