// Scenario "conc": one writer task and several reader tasks on private tables under guard-level
// preemption. O1: linearizability of every read against the totally ordered writer states
// (DESIGN §8 C16). O2 (race freedom) comes from running the same plans in the TSan variant, whose
// reports are collected by tsan_hook.cpp.
#include "models.hpp"
#include "scenario.hpp"

namespace {

struct WPoint { // one linearization point of the writer
	uint64_t inv, ret;
	size_t op;
};

struct ReadRec {
	int reader;
	size_t idx;
	uint64_t inv, ret;
	J q;
	int rc = 0;
	int state = 0;
	std::multiset<PfxRec> pset; // reasons or enumeration
	std::multiset<SpkiRec> sset;
};

struct ConcRun {
	const J &plan;
	RunCtx &ctx;
	bool spki = false;
	pfx_table ptbl;
	spki_table stbl;
	SrcMap sm;
	rtr_socket fake[4];
	uint64_t stamp = 0;
	std::vector<WPoint> points;
	std::vector<PfxModel> pstates; // pstates[k] = contents after k points
	std::vector<SpkiModel> sstates;
	std::vector<ReadRec> reads;
	ConcRun(const J &p, RunCtx &c) : plan(p), ctx(c) {}
};

ConcRun *g_run;

SpkiRec srec_from(const J &j)
{
	return SpkiRec::make((uint32_t)j[(size_t)0].num(), (int)j[(size_t)1].num(), (int)j[(size_t)2].num(), (int)((unsigned)j[(size_t)3].num() % 3u));
}

void *writer_task(void *)
{
	ConcRun &R = *g_run;
	const J &ops = R.plan["wops"];
	PfxModel pm = R.pstates.back();
	SpkiModel smod = R.sstates.back();
	for (size_t i = 0; i < ops.size(); i++) {
		const J &op = ops[i];
		std::string kind = op.gets("op");
		uint64_t inv = ++R.stamp;
		sim_log(EV_USER, 1, i);
		if (!R.spki) {
			if (kind == "add" || kind == "rm") {
				PfxRec r = PfxRec::from(op["r"]);
				r.src = (int)((unsigned)r.src % 3u);
				pfx_record pr;
				to_pfx_record(r, R.sm, &pr);
				int rc = kind == "add" ? pfx_table_add(&R.ptbl, &pr) : pfx_table_remove(&R.ptbl, &pr);
				uint64_t ret = ++R.stamp;
				if (rc == PFX_SUCCESS) {
					if (kind == "add")
						pm.add(r);
					else
						pm.remove(r);
				}
				R.points.push_back({inv, ret, i});
				R.pstates.push_back(pm);
			} else if (kind == "srcrm") {
				int s = (int)((unsigned)op.geti("src") % 3u);
				pfx_table_src_remove(&R.ptbl, R.sm.ptr[(size_t)s]);
				uint64_t ret = ++R.stamp;
				// two instants: IPv4 records of the source vanish, then its IPv6 records
				for (auto it = pm.recs.begin(); it != pm.recs.end();)
					if (it->src == s && it->fam == 4)
						it = pm.recs.erase(it);
					else
						++it;
				R.points.push_back({inv, ret, i});
				R.pstates.push_back(pm);
				pm.src_remove(s);
				R.points.push_back({inv, ret, i});
				R.pstates.push_back(pm);
			} else if (kind == "reload") {
				// the library's own atomic-reload recipe (packets.c): copy the other sources into a shadow table, add the
				// new set of this source, swap, free what was swapped out; for readers it is one instant (the swap)
				int s = (int)((unsigned)op.geti("src") % 3u);
				pfx_table shadow;
				pfx_table_init(&shadow, NULL);
				bool ok = pfx_table_copy_except_socket(&R.ptbl, &shadow, R.sm.ptr[(size_t)s]) == PFX_SUCCESS;
				std::vector<PfxRec> added;
				const J &nw = op["new"];
				for (size_t q = 0; ok && q < nw.size(); q++) {
					PfxRec r = PfxRec::from(nw[q]);
					r.src = s;
					pfx_record pr;
					to_pfx_record(r, R.sm, &pr);
					int rc = pfx_table_add(&shadow, &pr);
					if (rc == PFX_SUCCESS)
						added.push_back(r);
					else if (rc != PFX_DUPLICATE_RECORD)
						ok = false;
				}
				if (ok)
					pfx_table_swap(&R.ptbl, &shadow);
				pfx_table_free_without_notify(&shadow);
				uint64_t ret = ++R.stamp;
				if (ok) {
					pm.src_remove(s);
					for (auto &r : added)
						pm.add(r);
				}
				R.points.push_back({inv, ret, i});
				R.pstates.push_back(pm);
				R.ctx.count("probe_writer_reload");
			}
		} else {
			if (kind == "add" || kind == "rm") {
				SpkiRec r = srec_from(op["r"]);
				spki_record sr;
				to_spki_record(r, R.sm, &sr);
				int rc = kind == "add" ? spki_table_add_entry(&R.stbl, &sr) : spki_table_remove_entry(&R.stbl, &sr);
				uint64_t ret = ++R.stamp;
				if (rc == SPKI_SUCCESS) {
					if (kind == "add")
						smod.add(r);
					else
						smod.remove(r);
				}
				R.points.push_back({inv, ret, i});
				R.sstates.push_back(smod);
			} else if (kind == "srcrm") {
				int s = (int)((unsigned)op.geti("src") % 3u);
				spki_table_src_remove(&R.stbl, R.sm.ptr[(size_t)s]);
				uint64_t ret = ++R.stamp;
				smod.src_remove(s);
				R.points.push_back({inv, ret, i});
				R.sstates.push_back(smod);
			} else if (kind == "reload") {
				int s = (int)((unsigned)op.geti("src") % 3u);
				spki_table shadow;
				spki_table_init(&shadow, NULL);
				bool ok = spki_table_copy_except_socket(&R.stbl, &shadow, (rtr_socket *)R.sm.ptr[(size_t)s]) == SPKI_SUCCESS;
				std::vector<SpkiRec> added;
				const J &nw = op["new"];
				for (size_t q = 0; ok && q < nw.size(); q++) {
					SpkiRec r = srec_from(nw[q]);
					r.src = s;
					spki_record sr;
					to_spki_record(r, R.sm, &sr);
					int rc = spki_table_add_entry(&shadow, &sr);
					if (rc == SPKI_SUCCESS)
						added.push_back(r);
					else if (rc != SPKI_DUPLICATE_RECORD)
						ok = false;
				}
				if (ok)
					spki_table_swap(&R.stbl, &shadow);
				spki_table_free_without_notify(&shadow);
				uint64_t ret = ++R.stamp;
				if (ok) {
					smod.src_remove(s);
					for (auto &r : added)
						smod.add(r);
				}
				R.points.push_back({inv, ret, i});
				R.sstates.push_back(smod);
				R.ctx.count("probe_writer_reload");
			}
		}
		R.ctx.count("writer_ops");
	}
	return nullptr;
}

struct ReaderArg {
	int id;
};

void enum4_cb(const pfx_record *rec, void *data)
{
	((std::vector<pfx_record> *)data)->push_back(*rec);
}

void *reader_task(void *p)
{
	ConcRun &R = *g_run;
	int id = ((ReaderArg *)p)->id;
	const J &reads = R.plan["readers"][(size_t)id]["reads"];
	for (size_t i = 0; i < reads.size(); i++) {
		const J &q = reads[i];
		std::string kind = q.gets("q");
		ReadRec rr;
		rr.reader = id;
		rr.idx = i;
		rr.q = q;
		rr.inv = ++R.stamp;
		sim_log(EV_USER, 2, ((uint64_t)id << 32) | i);
		if (kind == "val") {
			PfxRec a = PfxRec::from(q["a"]);
			lrtr_ip_addr ip;
			to_lrtr_addr(a.fam, a.addr, &ip);
			enum pfxv_state res = BGP_PFXV_STATE_NOT_FOUND;
			if (q.geti("r")) {
				pfx_record *reason = nullptr;
				unsigned rl = 0;
				rr.rc = pfx_table_validate_r(&R.ptbl, &reason, &rl, a.asn, &ip, (uint8_t)a.len, &res);
				for (unsigned k = 0; k < rl; k++)
					rr.pset.insert(from_pfx_record(&reason[k], R.sm));
				if (reason)
					lrtr_free(reason);
			} else
				rr.rc = pfx_table_validate(&R.ptbl, a.asn, &ip, (uint8_t)a.len, &res);
			rr.state = (int)res;
		} else if (kind == "enum4" || kind == "enum6") {
			std::vector<pfx_record> raw;
			if (kind == "enum4")
				pfx_table_for_each_ipv4_record(&R.ptbl, enum4_cb, &raw);
			else
				pfx_table_for_each_ipv6_record(&R.ptbl, enum4_cb, &raw);
			for (auto &x : raw)
				rr.pset.insert(from_pfx_record(&x, R.sm));
		} else if (kind == "getall" || kind == "byski") {
			SpkiRec k = SpkiRec::make((uint32_t)q.geti("asn"), (int)q.geti("ski"), 0, 0);
			spki_record *res = nullptr;
			unsigned n = 0;
			if (kind == "getall")
				rr.rc = spki_table_get_all(&R.stbl, k.asn, k.ski.data(), &res, &n);
			else
				rr.rc = spki_table_search_by_ski(&R.stbl, k.ski.data(), &res, &n);
			for (unsigned x = 0; x < n; x++)
				rr.sset.insert(from_spki_record(&res[x], R.sm));
			if (res)
				lrtr_free(res);
		}
		rr.ret = ++R.stamp;
		R.reads.push_back(rr);
		R.ctx.count("reads");
	}
	return nullptr;
}

// does read rr's answer equal the model's answer in state k?
bool legal_in(ConcRun &R, const ReadRec &rr, size_t k)
{
	std::string kind = rr.q.gets("q");
	if (kind == "val") {
		const PfxModel &m = R.pstates[k];
		PfxRec a = PfxRec::from(rr.q["a"]);
		std::vector<PfxRec> cov;
		int want = m.validate(a.asn, a.fam, a.addr, a.len, &cov);
		if (rr.rc != PFX_SUCCESS || want != rr.state)
			return false;
		if (!rr.q.geti("r"))
			return true;
		std::multiset<PfxRec> covs(cov.begin(), cov.end());
		if (want == ST_NOTFOUND)
			return rr.pset.empty();
		if (want == ST_INVALID)
			return rr.pset == covs;
		bool hasmatch = false;
		for (auto &x : rr.pset) {
			if (rr.pset.count(x) > covs.count(x))
				return false;
			if (x.asn != 0 && x.asn == a.asn && x.maxlen >= a.len)
				hasmatch = true;
		}
		return hasmatch;
	}
	if (kind == "enum4" || kind == "enum6") {
		int fam = kind == "enum4" ? 4 : 6;
		std::multiset<PfxRec> want;
		for (auto &x : R.pstates[k].recs)
			if (x.fam == fam)
				want.insert(x);
		return want == rr.pset;
	}
	SpkiRec key = SpkiRec::make((uint32_t)rr.q.geti("asn"), (int)rr.q.geti("ski"), 0, 0);
	std::set<SpkiRec> w = kind == "getall" ? R.sstates[k].get_all(key.asn, key.ski) : R.sstates[k].by_ski(key.ski);
	std::multiset<SpkiRec> want(w.begin(), w.end());
	return rr.rc == SPKI_SUCCESS && want == rr.sset;
}

void analyse(ConcRun &R)
{
	size_t npts = R.points.size();
	// process reads by return stamp; each takes the smallest feasible state index that is not below the
	// index chosen by any read that returned before it was invoked
	std::vector<size_t> order(R.reads.size());
	for (size_t i = 0; i < order.size(); i++)
		order[i] = i;
	std::sort(order.begin(), order.end(), [&](size_t a, size_t b) { return R.reads[a].ret < R.reads[b].ret; });
	std::vector<std::pair<uint64_t, size_t>> done; // (ret stamp, chosen k)
	for (size_t oi : order) {
		ReadRec &rr = R.reads[oi];
		size_t lo = 0, hi = 0;
		for (size_t j = 0; j < npts; j++) {
			if (R.points[j].ret < rr.inv)
				lo = j + 1;
			if (R.points[j].inv < rr.ret)
				hi = j + 1;
		}
		size_t floor_k = lo;
		for (auto &d : done)
			if (d.first < rr.inv && d.second > floor_k)
				floor_k = d.second;
		bool any = false, ok = false;
		size_t chosen = 0;
		for (size_t k = lo; k <= hi; k++)
			if (legal_in(R, rr, k)) {
				any = true;
				if (k >= floor_k) {
					ok = true;
					chosen = k;
					break;
				}
			}
		if (hi > lo)
			R.ctx.count("reads_overlapping_writes");
		std::string kind = rr.q.gets("q");
		if (!any) {
			R.ctx.viol("C16", "nonlinearizable-" + kind, "C16:lin:" + kind + ":no-state",
				   "reader %d read %zu (%s): answer matches no table state between its call and return (states %zu..%zu)", rr.reader,
				   rr.idx, rr.q.dump().c_str(), lo, hi);
		} else if (!ok) {
			R.ctx.viol("C16", "nonmonotone-" + kind, "C16:lin:" + kind + ":goes-back",
				   "reader %d read %zu (%s): only matches states older than one observed by an earlier completed read", rr.reader, rr.idx,
				   rr.q.dump().c_str());
		}
		done.push_back({rr.ret, ok ? chosen : floor_k});
	}
}

void run_conc(const J &plan, RunCtx &ctx)
{
	ConcRun R(plan, ctx);
	g_run = &R;
	R.spki = plan.gets("kind") == "spki";
	memset(R.fake, 0, sizeof(R.fake));
	for (int i = 0; i < 3; i++)
		R.sm.ptr.push_back(&R.fake[i]);
	pfx_table_init(&R.ptbl, NULL);
	spki_table_init(&R.stbl, NULL);
	PfxModel pm;
	SpkiModel smod;
	const J &init = plan["init"];
	for (size_t i = 0; i < init.size(); i++) {
		if (!R.spki) {
			PfxRec r = PfxRec::from(init[i]);
			r.src = (int)((unsigned)r.src % 3u);
			pfx_record pr;
			to_pfx_record(r, R.sm, &pr);
			if (pfx_table_add(&R.ptbl, &pr) == PFX_SUCCESS)
				pm.add(r);
		} else {
			SpkiRec r = srec_from(init[i]);
			spki_record sr;
			to_spki_record(r, R.sm, &sr);
			if (spki_table_add_entry(&R.stbl, &sr) == SPKI_SUCCESS)
				smod.add(r);
		}
	}
	R.pstates.push_back(pm);
	R.sstates.push_back(smod);
	size_t nr = plan["readers"].size();
	std::vector<ReaderArg> args(nr);
	std::vector<int> tids;
	sim_nopreempt_begin();
	tids.push_back(sim_spawn("writer", writer_task, nullptr));
	for (size_t i = 0; i < nr; i++) {
		args[i].id = (int)i;
		char nm[16];
		snprintf(nm, sizeof(nm), "reader%zu", i);
		tids.push_back(sim_spawn(nm, reader_task, &args[i]));
	}
	sim_nopreempt_end();
	for (int t : tids)
		sim_join_task(t);
	if (R.spki)
		while (R.pstates.size() < R.sstates.size())
			R.pstates.push_back(pm);
	else
		while (R.sstates.size() < R.pstates.size())
			R.sstates.push_back(smod);
	analyse(R);
	ctx.nontrivial = ctx.counters["reads_overlapping_writes"] > 0;
	pfx_table_free(&R.ptbl);
	spki_table_free(&R.stbl);
	g_run = nullptr;
}

J gen_conc(uint64_t seed, const J &opts)
{
	Rng g(seed_label(seed, "gen-conc"));
	J plan = J::obj();
	plan["scn"] = "conc";
	plan["seed"] = (long long)(seed & 0x3fffffffffffffffull);
	J sim = gen_sim_part(g, seed, true, 0);
	static const unsigned pm[] = {3, 8, 20, 60, 200, 0};
	sim["preempt_mean"] = pm[g.below(6)];
	plan["sim"] = sim;
	bool spki = opts.has("kind") ? opts.gets("kind") == "spki" : g.chance(350);
	plan["kind"] = spki ? "spki" : "pfx";
	int nw = (int)g.range(4, opts.geti("maxw", 40));
	int nreaders = (int)g.range(1, 3);
	J init = J::arr(), wops = J::arr(), readers = J::arr();
	if (!spki) {
		// small universe on one or two chains
		std::vector<PfxRec> cands;
		int fam = g.chance(500) ? 4 : 6;
		u128 base = ((u128)g.next() << 64) | g.next();
		int w = fam == 4 ? 32 : 128;
		std::vector<int> lens;
		int nl = (int)g.range(2, 6);
		for (int i = 0; i < nl; i++)
			lens.push_back((int)g.range(0, w));
		if (g.chance(300))
			lens.push_back(0);
		for (int l : lens) {
			PfxRec r;
			r.fam = fam;
			r.len = l;
			r.addr = PfxRec::mask(base, l, fam);
			cands.push_back(r);
			if (l > 0 && g.chance(500)) {
				r.addr ^= (u128)1 << (128 - l);
				cands.push_back(r);
			}
		}
		if (g.chance(400)) { // a record of the other family so that enum4/enum6 both matter
			PfxRec r;
			r.fam = fam == 4 ? 6 : 4;
			r.len = (int)g.range(0, r.width());
			r.addr = PfxRec::mask(((u128)g.next() << 64) | g.next(), r.len, r.fam);
			cands.push_back(r);
		}
		uint32_t next_asn = 100;
		PfxModel shadow;
		auto fresh = [&]() {
			PfxRec r = cands[g.below(cands.size())];
			r.maxlen = g.chance(500) ? r.len : (int)g.range(r.len, r.width());
			r.asn = g.chance(850) ? next_asn++ : (uint32_t)g.below(3);
			r.src = (int)g.below(3);
			return r;
		};
		int ninit = (int)g.range(0, 6);
		for (int i = 0; i < ninit; i++) {
			PfxRec r = fresh();
			if (shadow.add(r))
				init.push(r.json());
		}
		for (int i = 0; i < nw; i++) {
			J op = J::obj();
			unsigned k = (unsigned)g.below(100);
			if (k < 50 || shadow.recs.empty()) {
				PfxRec r = fresh();
				op["op"] = "add";
				op["r"] = r.json();
				shadow.add(r);
			} else if (k < 90) {
				auto it = shadow.recs.begin();
				std::advance(it, (long)g.below(shadow.recs.size()));
				PfxRec r = *it;
				op["op"] = "rm";
				op["r"] = r.json();
				shadow.remove(r);
			} else if (k < 95) {
				int s = (int)g.below(3);
				op["op"] = "srcrm";
				op["src"] = s;
				shadow.src_remove(s);
			} else {
				int s = (int)g.below(3);
				op["op"] = "reload";
				op["src"] = s;
				auto old = shadow.of_src(s);
				shadow.src_remove(s);
				J recs = J::arr();
				int n = (int)g.range(0, 5);
				for (int q = 0; q < n; q++) {
					PfxRec r = fresh();
					if (!old.empty() && g.chance(500)) {
						auto it = old.begin();
						std::advance(it, (long)g.below(old.size()));
						r = *it;
					}
					r.src = s;
					if (shadow.add(r))
						recs.push(r.json());
				}
				op["new"] = recs;
			}
			wops.push(op);
		}
		for (int rd = 0; rd < nreaders; rd++) {
			J reads = J::arr();
			int n = (int)g.range(3, opts.geti("maxr", 40));
			for (int i = 0; i < n; i++) {
				J q = J::obj();
				unsigned k = (unsigned)g.below(100);
				if (k < 75) {
					PfxRec c = cands[g.below(cands.size())];
					int w2 = c.width();
					PfxRec a;
					a.fam = c.fam;
					a.len = g.chance(500) ? c.len : (int)g.range(c.len, w2);
					u128 rnd = ((u128)g.next() << 64) | g.next();
					a.addr = PfxRec::mask(c.addr | (c.len < 128 ? (rnd >> c.len) : 0), a.len, a.fam);
					a.asn = g.chance(700) ? (uint32_t)g.range(100, (int64_t)next_asn) : (uint32_t)g.below(3);
					a.maxlen = a.len;
					q["q"] = "val";
					q["a"] = a.json();
					q["r"] = g.chance(500) ? 1 : 0;
				} else
					q["q"] = g.chance(500) ? "enum4" : "enum6";
				reads.push(q);
			}
			J rj = J::obj();
			rj["reads"] = reads;
			readers.push(rj);
		}
	} else {
		std::vector<uint32_t> asns = {65000u, 65001u, 65002u};
		int nski = (int)g.range(1, 3);
		int serial = 0;
		SpkiModel shadow;
		std::vector<std::array<int, 4>> live;
		auto jrec = [&](uint32_t asn, int ski, int spki, int src) {
			J r = J::arr();
			r.push(asn);
			r.push(ski);
			r.push(spki);
			r.push(src);
			return r;
		};
		int ninit = g.chance(300) ? (int)g.range(28, 36) : (int)g.range(0, 6); // near the first grow threshold
		for (int i = 0; i < ninit; i++) {
			std::array<int, 4> t = {(int)g.below(3), (int)g.below((uint64_t)nski), serial++, (int)g.below(3)};
			live.push_back(t);
			init.push(jrec(asns[(size_t)t[0]], t[1], t[2], t[3]));
		}
		for (int i = 0; i < nw; i++) {
			J op = J::obj();
			unsigned k = (unsigned)g.below(100);
			if (k < 50 || live.empty()) {
				std::array<int, 4> t = {(int)g.below(3), (int)g.below((uint64_t)nski), serial++, (int)g.below(3)};
				live.push_back(t);
				op["op"] = "add";
				op["r"] = jrec(asns[(size_t)t[0]], t[1], t[2], t[3]);
			} else if (k < 92) {
				size_t x = g.below(live.size());
				auto t = live[x];
				live.erase(live.begin() + (long)x);
				op["op"] = "rm";
				op["r"] = jrec(asns[(size_t)t[0]], t[1], t[2], t[3]);
			} else if (k < 96) {
				int s = (int)g.below(3);
				op["op"] = "srcrm";
				op["src"] = s;
				for (size_t x = live.size(); x-- > 0;)
					if (live[x][3] == s)
						live.erase(live.begin() + (long)x);
			} else {
				int s = (int)g.below(3);
				op["op"] = "reload";
				op["src"] = s;
				std::vector<std::array<int, 4>> old;
				for (size_t x = live.size(); x-- > 0;)
					if (live[x][3] == s) {
						old.push_back(live[x]);
						live.erase(live.begin() + (long)x);
					}
				J recs = J::arr();
				int n = (int)g.range(0, 5);
				for (int q = 0; q < n; q++) {
					std::array<int, 4> t = {(int)g.below(3), (int)g.below((uint64_t)nski), serial++, s};
					if (!old.empty() && g.chance(500)) {
						t = old[g.below(old.size())];
						bool dup = false;
						for (auto &l : live)
							dup |= l == t;
						if (dup)
							continue;
					}
					live.push_back(t);
					recs.push(jrec(asns[(size_t)t[0]], t[1], t[2], t[3]));
				}
				op["new"] = recs;
			}
			wops.push(op);
		}
		for (int rd = 0; rd < nreaders; rd++) {
			J reads = J::arr();
			int n = (int)g.range(3, opts.geti("maxr", 40));
			for (int i = 0; i < n; i++) {
				J q = J::obj();
				q["q"] = g.chance(600) ? "getall" : "byski";
				q["asn"] = asns[g.below(3)];
				q["ski"] = (int)g.below((uint64_t)nski);
				reads.push(q);
			}
			J rj = J::obj();
			rj["reads"] = reads;
			readers.push(rj);
		}
	}
	plan["init"] = init;
	plan["wops"] = wops;
	plan["readers"] = readers;
	return plan;
}

} // namespace

extern const Scenario scn_conc = {"conc", gen_conc, run_conc};
