// Reference semantics of one exchange, written from the property statements (C03, C04, C05, C13, C14),
// not from packets.c: what must a correct client make of the bytes the cache queued for this query?
#include "world.hpp"

namespace {

struct Item { // one payload PDU
	int type;
	size_t off, len;
	uint8_t flags;
	PfxRec pfx;
	SpkiRec key;
};

void fail(Walk &w, const char *why, size_t off, size_t olen, std::initializer_list<int> codes, bool report = true)
{
	w.kind = WK_FAIL;
	w.why = why;
	w.off = off;
	w.olen = olen;
	w.codes.insert(codes.begin(), codes.end());
	w.need_report = report;
}

} // namespace

Walk walk_exchange(const Exchange &x, bool first_pdu_of_conn)
{
	Walk w;
	const Bytes &S = x.bytes;
	const Belief &b = x.at_query;
	int v = b.version;
	bool first = first_pdu_of_conn;
	size_t pos = 0;
	bool got_cr = false;
	std::vector<Item> items;
	w.version_after = v;
	for (;;) {
		w.consumed = pos;
		if (S.size() - pos < 8) {
			w.kind = WK_INCOMPLETE;
			w.why = x.closes ? "closed" : "silent";
			w.version_after = v;
			return w;
		}
		const uint8_t *h = &S[pos];
		uint8_t ver = h[0], type = h[1];
		uint16_t mid = get16(h + 2);
		uint32_t len = get32(h + 4);
		size_t avail = S.size() - pos;
		// C04: length smaller than a header or larger than the client's maximum
		if (len < 8 || len > RTR_MAX_PDU) {
			// an Error Report is never answered (C14)
			fail(w, "framing", pos, 8, {0}, type != PDU_ERROR);
			w.version_after = v;
			return w;
		}
		// C13: live downgrade on the first PDU of a connection
		if (first) {
			if (v == 1 && ver == 0 && type != PDU_ERROR) {
				v = 0;
				w.downgraded = true;
			}
			first = false;
		}
		w.version_after = v;
		std::set<int> codes;
		const char *why = nullptr;
		if (ver != v && type != PDU_ERROR) {
			codes.insert(8);
			why = "version";
		}
		int sz = rfc_pdu_size(type, ver);
		if (sz == -1) {
			codes.insert(5);
			codes.insert(0);
			if (!why)
				why = "unktype";
		} else if (sz > 0 && (uint32_t)sz != len) {
			codes.insert(0);
			if (!why)
				why = "framing";
		}
		if (why && std::string(why) == "version") {
			// refused on the header alone
			fail(w, why, pos, 8, {}, true);
			w.codes = codes;
			return w;
		}
		if (avail < len) {
			if (why) { // a correct client may also stop here; both are failures
			}
			w.kind = WK_INCOMPLETE;
			w.why = x.closes ? "closed" : "silent";
			return w;
		}
		if (type == PDU_ERROR && !why) {
			bool ok = len >= 16;
			uint32_t el = 0, tl = 0;
			if (ok) {
				el = get32(h + 8);
				ok = (uint64_t)16 + el <= len;
			}
			if (ok) {
				tl = get32(h + 12 + el);
				ok = (uint64_t)16 + el + tl == len;
			}
			if (!ok) {
				fail(w, "framing", pos, len, {0}, false);
				return w;
			}
		}
		if (why) {
			fail(w, why, pos, len, {}, type != PDU_ERROR);
			w.codes = codes;
			return w;
		}
		// well-framed PDU of the negotiated version
		if (type == PDU_SERIAL_NOTIFY) {
			pos += len;
			continue;
		}
		if (type == PDU_ERROR) {
			w.kind = WK_ERR_PDU;
			w.err_code = mid;
			w.err_ver = ver;
			w.off = pos;
			w.olen = len;
			w.consumed = pos + len;
			return w;
		}
		if (!got_cr) {
			if (type == PDU_CACHE_RESET) {
				w.kind = WK_CACHE_RESET;
				w.consumed = pos + len;
				return w;
			}
			if (type == PDU_CACHE_RESPONSE) {
				if (x.qtype == 1 && b.has_session && mid != b.session) {
					fail(w, "sess-cr", pos, len, {0});
					return w;
				}
				w.session = mid;
				got_cr = true;
				pos += len;
				continue;
			}
			fail(w, "unexpected", pos, len, {0});
			return w;
		}
		if (type == PDU_IPV4 || type == PDU_IPV6) {
			Item it;
			it.type = type;
			it.off = pos;
			it.len = len;
			it.flags = h[8];
			it.pfx.fam = type == PDU_IPV4 ? 4 : 6;
			it.pfx.len = h[9];
			it.pfx.maxlen = h[10];
			if (h[11] != 0)
				w.either = true;
			if (type == PDU_IPV4) {
				it.pfx.addr = (u128)get32(h + 12) << 96;
				it.pfx.asn = get32(h + 16);
			} else {
				it.pfx.addr = 0;
				for (int k = 0; k < 4; k++)
					it.pfx.addr |= (u128)get32(h + 12 + 4 * k) << (96 - 32 * k);
				it.pfx.asn = get32(h + 28);
			}
			it.pfx.src = x.si;
			int width = it.pfx.width();
			if (it.pfx.len > width || it.pfx.maxlen > width || it.pfx.maxlen < it.pfx.len ||
			    PfxRec::mask(it.pfx.addr, it.pfx.len, it.pfx.fam) != it.pfx.addr) {
				w.either = true;
				w.domain_ok = false;
			}
			items.push_back(it);
			pos += len;
			continue;
		}
		if (type == PDU_ROUTER_KEY) {
			Item it;
			it.type = type;
			it.off = pos;
			it.len = len;
			it.flags = h[2];
			if (h[3] != 0)
				w.either = true;
			memcpy(it.key.ski.data(), h + 8, SKI_SIZE);
			it.key.asn = get32(h + 8 + SKI_SIZE);
			memcpy(it.key.spki.data(), h + 12 + SKI_SIZE, SPKI_SIZE);
			it.key.src = x.si;
			if (v == 0)
				w.either = true; // router keys do not exist in version 0
			items.push_back(it);
			pos += len;
			continue;
		}
		if (type == PDU_EOD) {
			if (mid != w.session) {
				fail(w, "sess-eod", pos, len, {0});
				return w;
			}
			w.serial = get32(h + 8);
			if (ver == 1) {
				w.has_iv = true;
				w.iv[0] = get32(h + 12);
				w.iv[1] = get32(h + 16);
				w.iv[2] = get32(h + 20);
			}
			w.consumed = pos + len;
			break;
		}
		fail(w, "unexpected", pos, len, {0});
		return w;
	}
	// apply: IPv4 in wire order, then IPv6, then router keys; full set for a Reset Query, delta otherwise
	std::set<PfxRec> cur;
	std::set<SpkiRec> curk;
	if (x.qtype == 1) {
		cur = x.base_pfx;
		curk = x.base_spki;
	}
	w.n_payload = (unsigned)items.size();
	// each family in wire order up to its first violation (the families are independent of each other)
	for (int pass = 0; pass < 3; pass++) {
		size_t add0 = w.n_add, del0 = w.n_del;
		for (auto &it : items) {
			int want = pass == 0 ? PDU_IPV4 : pass == 1 ? PDU_IPV6 : PDU_ROUTER_KEY;
			if (it.type != want)
				continue;
			const char *why = nullptr;
			int code = 0;
			if (it.flags > 1) {
				why = "flags";
				code = 0;
			} else if (pass < 2) {
				PfxRec r = it.pfx;
				if (it.flags == 1) {
					if (!cur.insert(r).second)
						why = "dup", code = 7;
					else
						w.n_add++;
				} else {
					if (!cur.erase(r))
						why = "unk", code = 6;
					else
						w.n_del++;
				}
			} else {
				SpkiRec r = it.key;
				if (it.flags == 1) {
					if (!curk.insert(r).second)
						why = "dup", code = 7;
					else
						w.n_add++;
				} else {
					if (!curk.erase(r))
						why = "unk", code = 6;
					else
						w.n_del++;
				}
			}
			if (why) {
				w.alts.push_back({why, it.off, it.len, {code}});
				w.n_add = add0;
				w.n_del = del0;
				break;
			}
		}
	}
	if (!w.alts.empty()) {
		const Walk::Alt &a = w.alts[0];
		w.kind = WK_FAIL;
		w.why = a.why;
		w.off = a.off;
		w.olen = a.olen;
		w.codes = a.codes;
		w.need_report = true;
		return w;
	}
	w.kind = WK_OK;
	w.new_pfx = cur;
	w.new_spki = curk;
	return w;
}
