// Plan generator for the "world" scenario. One generator, steered by opts.focus (the property whose
// behaviour should be stressed); every plan is plain JSON so that the driver can shrink it.
#include "world.hpp"

namespace {

struct Pool {
	std::vector<PfxRec> pfx;
	std::vector<std::array<int, 3>> keys; // asn, ski id, spki id
};

Pool make_pool(Rng &g, int ci)
{
	Pool P;
	int n = (int)g.range(6, 24);
	u128 b4 = (u128)(0x0a000000u + ((uint32_t)ci << 20)) << 96;
	u128 b6 = ((u128)0x20010db8u << 96) | ((u128)(uint32_t)ci << 80);
	for (int i = 0; i < n; i++) {
		PfxRec r;
		bool v6 = g.chance(400);
		r.fam = v6 ? 6 : 4;
		int w = r.width();
		r.len = v6 ? (int)g.pick(std::vector<int>{32, 33, 48, 56, 64, 128}) : (int)g.pick(std::vector<int>{8, 12, 16, 17, 20, 24, 32});
		u128 rnd = ((u128)g.next() << 64) | g.next();
		u128 base = v6 ? b6 : b4;
		int keep = v6 ? 48 : 12;
		r.addr = PfxRec::mask(base | (rnd >> keep), r.len, r.fam);
		if (g.chance(300) && !P.pfx.empty()) { // same prefix as an earlier record, other attributes
			const PfxRec &o = P.pfx[g.below(P.pfx.size())];
			r.fam = o.fam;
			r.addr = o.addr;
			r.len = o.len;
			w = r.width();
		}
		r.maxlen = g.chance(500) ? r.len : (int)g.range(r.len, w);
		r.asn = g.chance(60) ? 0 : (uint32_t)(64500 + g.below(6));
		r.src = ci;
		P.pfx.push_back(r);
	}
	int nk = (int)g.range(0, 8);
	for (int i = 0; i < nk; i++)
		P.keys.push_back({(int)(65000 + g.below(3)), (int)g.below(4), (int)g.below(12)});
	return P;
}

J key_json(const std::array<int, 3> &k)
{
	J j = J::arr();
	j.push(k[0]);
	j.push(k[1]);
	j.push(k[2]);
	return j;
}

// honest data evolution between two exchanges
J gen_edits(Rng &g, const Pool &P, int maxn)
{
	J e = J::arr();
	int n = (int)g.range(0, maxn);
	for (int i = 0; i < n; i++) {
		J one = J::arr();
		unsigned k = (unsigned)g.below(100);
		if (k < 40) {
			one.push("add");
			one.push(P.pfx[g.below(P.pfx.size())].json());
		} else if (k < 65) {
			one.push("delany");
			one.push((long long)g.below(1000));
		} else if (k < 85 && !P.keys.empty()) {
			one.push("addkey");
			one.push(key_json(P.keys[g.below(P.keys.size())]));
		} else if (k < 95) {
			one.push("delanykey");
			one.push((long long)g.below(1000));
		} else {
			one.push("bump");
		}
		e.push(one);
	}
	return e;
}

J mut(const char *k, Rng &g)
{
	J m = J::obj();
	m["k"] = k;
	m["at"] = (long long)g.below(1000);
	return m;
}

// one protocol deviation the client has to reject (listed failure classes of C03 / C04 / C13)
J gen_listed_mut(Rng &g, const std::string &focus)
{
	static const char *sem[] = {"dup", "unk", "flags", "sess_cr", "sess_eod", "sess_both"};
	static const char *frm[] = {"len", "type", "eodfmt", "ins", "dropeod", "ver"};
	bool framing = focus == "C04" ? g.chance(700) : focus == "C13" ? g.chance(500) : g.chance(400);
	if (focus == "C05" && g.chance(600)) {
		J m = mut(g.pick(std::vector<const char *>{"sess_cr", "sess_eod", "sess_both"}), g);
		m["v"] = (long long)g.below(65536);
		return m;
	}
	if (!framing) {
		J m = mut(sem[g.below(6)], g);
		if (m.gets("k") == "flags")
			m["v"] = (long long)g.pick(std::vector<int>{2, 3, 128, 255});
		else
			m["v"] = (long long)g.below(65536);
		m["tag"] = (long long)g.below(60000);
		return m;
	}
	J m = mut(frm[g.below(6)], g);
	std::string k = m.gets("k");
	if (k == "len")
		m["v"] = (long long)g.pick(std::vector<long long>{0, 1, 7, 9, 11, 12, 13, 19, 21, 24, 31, 33, 3248, 3249, 65535, 4294967295ll});
	else if (k == "type")
		m["v"] = (long long)g.pick(std::vector<int>{5, 11, 12, 100, 255});
	else if (k == "ver")
		m["v"] = (long long)g.pick(std::vector<int>{0, 1, 2, 255});
	else if (k == "ins") {
		m["what"] = g.pick(std::vector<const char *>{"squery", "rquery", "creset", "cresp", "eod", "unk"});
		m["v"] = (long long)g.pick(std::vector<int>{5, 11, 200});
	}
	return m;
}

J gen_transport_fault(Rng &g, bool call_indexed = true)
{
	J f = J::obj();
	unsigned k = (unsigned)g.below(100);
	if (!call_indexed)
		k = 99; // only faults positioned by byte offset (independent of how reads are chunked)
	if (k < 35) {
		f["on"] = "recv";
		f["k"] = (long long)g.range(1, 12);
		f["kind"] = g.chance(500) ? "err" : "intr";
	} else if (k < 50) {
		f["on"] = "send";
		f["k"] = (long long)g.range(1, 2);
		f["kind"] = g.pick(std::vector<const char *>{"err", "intr", "wouldblock"});
		if (f.gets("kind") == "err" && g.chance(500))
			f["sticky"] = 1; // the connection is dead for writing from then on
	} else {
		f["kind"] = "cut";
		f["b"] = (long long)g.below(100000);
		f["close"] = g.chance(600) ? 1 : 0;
	}
	return f;
}

// Two caches of one group whose polls stay aligned (same timers, fixed latency). Cache 0 goes through reloads (restart with
// a new session / lost history / Cache Reset, then the full set); cache 1 changes its data at every poll. The last bytes of
// the answers of one cache are held back by the network until the other socket has read (almost) all of the answer to be
// applied at that moment, so that the two socket threads enter their apply phases at the same simulated instant and the
// scheduler interleaves them.
J gen_world_pair(Rng &g, uint64_t seed, const J &opts)
{
	std::string focus = opts.gets("focus", "C03");
	J plan = J::obj();
	plan["scn"] = "world";
	plan["seed"] = (long long)(seed & 0x3fffffffffffffffull);
	plan["focus"] = focus;
	J sim = gen_sim_part(g, seed, false, 0);
	sim["max_sim_s"] = 200ll * 86400ll;
	sim["boot_s"] = (long long)g.pick(std::vector<long long>{0, 1000000});
	sim["switch_permille"] = (long long)g.pick(std::vector<long long>{1000, 500, 200});
	sim["preempt_mean"] = (long long)g.pick(std::vector<long long>{0, 0, 7, 40, 300});
	plan["sim"] = sim;
	J cfg = J::obj();
	long long refresh = g.pick(std::vector<long long>{5, 10, 30}), retry = g.pick(std::vector<long long>{1, 3}), expire = 7200;
	cfg["refresh"] = refresh;
	cfg["retry"] = retry;
	cfg["expire"] = expire;
	cfg["callbacks"] = 1;
	cfg["iv_mode"] = 0;
	plan["cfg"] = cfg;
	J groups = J::arr();
	J gr = J::obj();
	gr["pref"] = 1;
	J ss = J::arr();
	ss.push(0);
	ss.push(1);
	gr["sockets"] = ss;
	groups.push(gr);
	plan["groups"] = groups;
	int npolls = (int)g.range(2, 6);
	// which polls of cache 0 / cache 1 are reloads
	int R = (int)g.below(2); // the cache that mostly reloads (the other one mostly sends deltas)
	std::vector<std::vector<int>> rel(2, std::vector<int>((size_t)npolls + 1, 0));
	for (int n = 1; n <= npolls; n++) {
		rel[(size_t)R][(size_t)n] = g.chance(650);
		rel[(size_t)(1 - R)][(size_t)n] = g.chance(150);
	}
	const std::vector<int> &reload0 = rel[0], &reload1 = rel[1];
	std::vector<std::vector<int>> idx(2, std::vector<int>((size_t)npolls + 1, -1)); // script index of the answer applied at poll n
	J caches = J::arr();
	std::vector<J> scripts(2);
	for (int ci = 0; ci < 2; ci++) {
		Pool P = make_pool(g, ci);
		J c = J::obj();
		c["session"] = (long long)g.below(65536);
		c["serial"] = (long long)g.pick(std::vector<long long>{0, 5, 4294967294ll, (long long)g.below(1000000)});
		c["vmax"] = 1;
		J data = J::arr();
		int nd = (int)g.range(2, (int64_t)P.pfx.size());
		for (int i = 0; i < nd; i++)
			data.push(P.pfx[(size_t)i].json());
		c["data"] = data;
		J keys = J::arr();
		for (size_t i = 0; i < P.keys.size(); i++)
			if (g.chance(500))
				keys.push(key_json(P.keys[i]));
		c["keys"] = keys;
		J iv = J::arr();
		iv.push(refresh);
		iv.push(retry);
		iv.push(expire);
		c["iv"] = iv;
		J script = J::arr();
		script.push(J::obj()); // initial full set
		const std::vector<int> &rl = ci == 0 ? reload0 : reload1;
		for (int n = 1; n <= npolls; n++) {
			J edits = gen_edits(g, P, ci == R ? 5 : 8);
			if (ci != R && edits.size() == 0) {
				J one = J::arr();
				one.push("add");
				one.push(P.pfx[g.below(P.pfx.size())].json());
				edits.push(one);
			}
			if (rl[(size_t)n]) {
				J ex = J::obj();
				J pre = J::arr();
				if (g.chance(600)) {
					J r = J::arr();
					r.push("restart");
					r.push((long long)g.below(65536));
					r.push((long long)g.below(1000));
					pre.push(r);
					for (auto &e : edits.a)
						pre.push(e);
				} else {
					for (auto &e : edits.a)
						pre.push(e);
					J r = J::arr();
					r.push("drophist");
					r.push(1);
					pre.push(r);
					J b2 = J::arr();
					b2.push("bump");
					pre.push(b2);
					J r2 = J::arr();
					r2.push("drophist");
					r2.push(1);
					pre.push(r2);
				}
				ex["pre"] = pre;
				script.push(ex); // answered with Cache Reset
				J good = J::obj();
				good["order"] = (long long)(g.next() & 0xffffffff);
				idx[(size_t)ci][(size_t)n] = (int)script.size();
				script.push(good); // the reload itself
			} else {
				J ex = J::obj();
				ex["pre"] = edits;
				ex["order"] = (long long)(g.next() & 0xffffffff);
				idx[(size_t)ci][(size_t)n] = (int)script.size();
				script.push(ex);
			}
		}
		scripts[(size_t)ci] = script;
		c["opens"] = J::arr();
		caches.push(c);
	}
	// rendezvous: at every poll the answer that is applied by one socket waits for the other's
	for (int n = 1; n <= npolls; n++) {
		if (!g.chance(850))
			continue;
		// the socket with the shorter path (no reload) waits for the one that reloads; with equal paths either
		int waiter = reload0[(size_t)n] == reload1[(size_t)n] ? (int)g.below(2) : (reload0[(size_t)n] ? 1 : 0);
		int other = 1 - waiter;
		J h = J::obj();
		h["sock"] = other;
		h["xi"] = idx[(size_t)other][(size_t)n];
		h["before"] = (long long)g.pick(std::vector<long long>{0, 0, 0, 24, 60, 200}); // released this many bytes before the end of the other answer
		h["tail"] = (long long)g.pick(std::vector<long long>{1, 4, 24, 60});
		h["max_s"] = (long long)g.pick(std::vector<long long>{20, 40});
		scripts[(size_t)waiter][(size_t)idx[(size_t)waiter][(size_t)n]]["hold"] = h;
	}
	for (int ci = 0; ci < 2; ci++)
		caches[(size_t)ci]["script"] = scripts[(size_t)ci];
	plan["caches"] = caches;
	J chunk = J::obj();
	chunk["mode"] = g.pick(std::vector<const char *>{"all", "rand"});
	chunk["seed"] = (long long)(g.next() & 0x3fffffffffffffffull);
	plan["chunk"] = chunk;
	J lat = J::obj();
	lat["seed"] = (long long)(g.next() & 0x3fffffffffffffffull);
	lat["min_ms"] = (long long)g.pick(std::vector<long long>{1, 20, 900});
	lat["jitter_ms"] = 0;
	plan["lat"] = lat;
	J oper = J::arr();
	if (g.chance(focus == "C07" ? 700 : 200)) {
		// the operator stops the manager at the instant one socket has been handed the last byte of an answer (its thread is
		// about to apply it, and cannot be cancelled while it does), and starts it again later
		int who = g.chance(700) ? R : 1 - R;
		int n = (int)g.range(1, npolls);
		J o = J::obj();
		o["at_ms"] = 0;
		o["op"] = "stop";
		J on = J::obj();
		on["ev"] = "resp_end";
		on["sock"] = who;
		on["n"] = (long long)(idx[(size_t)who][(size_t)n] + 1); // one such event per answered query
		o["on"] = on;
		oper.push(o);
		J o2 = J::obj();
		o2["at_ms"] = 0;
		o2["op"] = "start";
		o2["delay_ms"] = (long long)g.pick(std::vector<long long>{0, 1000, 70000});
		oper.push(o2);
	}
	plan["oper"] = oper;
	J end = J::obj();
	end["mode"] = "converge";
	end["max_s"] = 120ll * 86400ll;
	plan["end"] = end;
	return plan;
}

} // namespace

J gen_world(uint64_t seed, const J &opts)
{
	Rng g(seed_label(seed, "gen-world"));
	std::string focus = opts.gets("focus", "C03");
	if (opts.geti("pair", 0))
		return gen_world_pair(g, seed, opts);
	J plan = J::obj();
	plan["scn"] = "world";
	plan["seed"] = (long long)(seed & 0x3fffffffffffffffull);
	plan["focus"] = focus;
	J sim = gen_sim_part(g, seed, false, 0);
	sim["max_sim_s"] = 200ll * 86400ll;
	plan["sim"] = sim;
	// ---- configuration
	J cfg = J::obj();
	static const std::vector<long long> RF = {1, 2, 10, 60, 3600, 86400}, RT = {1, 3, 60, 600, 7200}, EX = {600, 601, 900, 7200, 172800};
	long long refresh = g.pick(RF), retry = g.pick(RT), expire = g.pick(EX);
	bool fast = opts.geti("fast_intervals", 0) != 0; // short, sane timers: the C08 bound is reached within the step budget
	if (fast) {
		refresh = g.pick(std::vector<long long>{10, 30, 60});
		retry = g.pick(std::vector<long long>{1, 3, 10});
		expire = g.pick(std::vector<long long>{600, 601, 900});
	}
	cfg["refresh"] = refresh;
	cfg["retry"] = retry;
	cfg["expire"] = expire;
	cfg["callbacks"] = 1;
	cfg["iv_mode"] = focus == "C17" ? (long long)g.below(4) : (g.chance(700) ? 2 : (long long)g.below(4));
	plan["cfg"] = cfg;
	int ncaches = focus == "C15" ? (int)g.range(2, 5) : (g.chance(450) ? 2 : 1);
	bool call_faults = opts.geti("no_call_faults", 0) == 0;
	if (opts.geti("single", 0))
		ncaches = 1;
	// ---- groups
	J groups = J::arr();
	if (focus == "C15") {
		int ng = (int)g.range(1, 3);
		std::vector<int> prefs = {1, 2, 3, 5, 9, 200};
		int next = 0;
		for (int gi = 0; gi < ng; gi++) {
			J gr = J::obj();
			gr["pref"] = prefs[g.below(prefs.size())] + gi * 10;
			J ss = J::arr();
			int ns = (int)g.range(1, 2);
			for (int k = 0; k < ns && next < ncaches; k++)
				ss.push(next++);
			if (ss.size() == 0)
				continue;
			gr["sockets"] = ss;
			groups.push(gr);
		}
		ncaches = (next > 0 ? next : 1) + (int)g.range(0, 2); // spare sockets for groups added at run time
	} else {
		J gr = J::obj();
		gr["pref"] = 1;
		J ss = J::arr();
		for (int i = 0; i < ncaches; i++)
			ss.push(i);
		gr["sockets"] = ss;
		groups.push(gr);
	}
	plan["groups"] = groups;
	if (focus == "C06") {
		ncaches = 2;
		J gr = J::obj();
		gr["pref"] = 1;
		J ss = J::arr();
		ss.push(0);
		ss.push(1);
		gr["sockets"] = ss;
		groups = J::arr();
		groups.push(gr);
		plan["groups"] = groups;
		J s2 = plan["sim"];
		static const unsigned pm[] = {15, 40, 120, 400, 0};
		s2["preempt_mean"] = pm[g.below(5)];
		s2["max_steps"] = 6000000;
		plan["sim"] = s2;
		cfg["refresh"] = (long long)g.pick(std::vector<long long>{5, 10, 30});
		cfg["retry"] = (long long)g.pick(std::vector<long long>{1, 3});
		cfg["expire"] = 7200;
		cfg["iv_mode"] = 0;
		plan["cfg"] = cfg;
		J c6 = J::obj();
		c6["readers"] = (long long)g.range(1, 3);
		c6["reads_per_wake"] = (long long)g.pick(std::vector<long long>{10, 40, 120});
		plan["c06"] = c6;
	}
	// ---- caches
	int maxx = (int)opts.geti("maxx", 14);
	J caches = J::arr();
	for (int ci = 0; ci < ncaches; ci++) {
		Pool P = make_pool(g, ci);
		J c = J::obj();
		c["session"] = (long long)g.pick(std::vector<long long>{0, 1, 77, 65535, (long long)g.below(65536)});
		c["serial"] = (long long)g.pick(std::vector<long long>{0, 1, 5, 2147483647ll, 2147483648ll, 4294967294ll, 4294967295ll, (long long)g.below(1000000)});
		c["vmax"] = (focus == "C13") ? (g.chance(500) ? 1 : 0) : (g.chance(850) ? 1 : 0);
		J data = J::arr();
		int nd = (int)g.range(0, (int64_t)P.pfx.size());
		if (g.chance(80))
			nd = 0;
		for (int i = 0; i < nd; i++)
			data.push(P.pfx[(size_t)i].json());
		c["data"] = data;
		J keys = J::arr();
		for (size_t i = 0; i < P.keys.size(); i++)
			if (g.chance(600))
				keys.push(key_json(P.keys[i]));
		c["keys"] = keys;
		J iv = J::arr();
		static const std::vector<long long> BV = {0, 1, 2, 599, 600, 601, 7200, 7201, 86400, 86401, 172800, 172801, 4294967295ll};
		if (fast) {
			iv.push(refresh);
			iv.push(retry);
			iv.push(expire);
		} else if (focus == "C17" || g.chance(150)) {
			iv.push(g.chance(700) ? g.pick(BV) : (long long)g.below(4294967296ull));
			iv.push(g.chance(700) ? g.pick(BV) : (long long)g.below(4294967296ull));
			iv.push(g.chance(700) ? g.pick(BV) : (long long)g.below(4294967296ull));
		} else {
			iv.push(g.pick(RF));
			iv.push(g.pick(RT));
			iv.push(g.pick(EX));
		}
		c["iv"] = iv;
		if (focus == "C06") {
			J script = J::arr();
			if (ci == 0) {
				script.push(J::obj()); // first synchronisation: the OLD set
				int nre = (int)g.range(1, 5);
				for (int q = 0; q < nre; q++) {
					// how the NEW set relates to the OLD one
					J edits = J::arr();
					unsigned mode = (unsigned)g.below(100);
					auto delall = [&]() {
						for (int z = 0; z < 40; z++) {
							J e = J::arr();
							e.push("delany");
							e.push(0);
							edits.push(e);
							J e2 = J::arr();
							e2.push("delanykey");
							e2.push(0);
							edits.push(e2);
						}
					};
					if (mode < 25) { // disjoint / replaced
						delall();
						J more = gen_edits(g, P, 12);
						for (auto &e : more.a)
							if (e[(size_t)0].str() == "add" || e[(size_t)0].str() == "addkey")
								edits.push(e);
					} else if (mode < 35) { // empty NEW
						delall();
					} else if (mode < 45) { // identical
					} else { // overlapping
						J more = gen_edits(g, P, 10);
						for (auto &e : more.a)
							edits.push(e);
					}
					unsigned how = (unsigned)g.below(100);
					if (how < 60) { // cache restart: new session, Serial Query answered with Cache Reset
						J ex = J::obj();
						J pre = J::arr();
						J r = J::arr();
						r.push("restart");
						r.push((long long)g.below(65536));
						r.push((long long)g.below(1000));
						pre.push(r);
						for (auto &e : edits.a)
							pre.push(e);
						ex["pre"] = pre;
						script.push(ex);
					} else if (how < 80) { // history lost
						J ex = J::obj();
						J pre = J::arr();
						for (auto &e : edits.a)
							pre.push(e);
						J r = J::arr();
						r.push("drophist");
						r.push(1);
						pre.push(r);
						J b2 = J::arr();
						b2.push("bump");
						pre.push(b2);
						J r2 = J::arr();
						r2.push("drophist");
						r2.push(1);
						pre.push(r2);
						ex["pre"] = pre;
						script.push(ex);
					} else { // no data for a while, then data again
						J ex = J::obj();
						J pre = J::arr();
						J r = J::arr();
						r.push("nodata");
						r.push(1);
						pre.push(r);
						ex["pre"] = pre;
						script.push(ex);
						J ex2 = J::obj();
						J pre2 = J::arr();
						J r2 = J::arr();
						r2.push("nodata");
						r2.push(0);
						pre2.push(r2);
						for (auto &e : edits.a)
							pre2.push(e);
						ex2["pre"] = pre2;
						script.push(ex2);
					}
					// the reload itself (answer to the Reset Query), sometimes failing first
					if (g.chance(300)) {
						J bad = J::obj();
						if (g.chance(500)) {
							J muts = J::arr();
							muts.push(gen_listed_mut(g, "C03"));
							bad["muts"] = muts;
						} else {
							J fs = J::arr();
							fs.push(gen_transport_fault(g, false));
							bad["faults"] = fs;
						}
						script.push(bad);
					}
					J good = J::obj();
					good["order"] = (long long)(g.next() & 0xffffffff);
					if (g.chance(400)) {
						// valid but unusual: a record announced and withdrawn again inside the reload (prefix or router
						// key; a fresh one or one of the old set)
						J muts = J::arr();
						J m = mut(g.chance(500) ? "annwd" : "annwdkey", g);
						m["tag"] = (long long)g.below(60000);
						m["old"] = g.chance(600) ? 1 : 0;
						muts.push(m);
						good["muts"] = muts;
					}
					script.push(good);
					if (g.chance(400))
						script.push(J::obj()); // an ordinary poll in between
				}
			}
			c["script"] = script;
			c["opens"] = J::arr();
			c["vmax"] = 1;
			J iv = J::arr();
			iv.push(cfg.geti("refresh"));
			iv.push(cfg.geti("retry"));
			iv.push(7200);
			c["iv"] = iv;
			caches.push(c);
			continue;
		}
		bool bystander = (ncaches == 2 && ci == 1 && focus != "C15" && g.chance(700));
		int nx = bystander ? (int)g.range(0, 3) : (int)g.range(2, maxx);
		unsigned p_fault = bystander ? 0 : (focus == "C17" ? 150 : focus == "C08" ? 600 : 380);
		if (opts.geti("clean", 0))
			p_fault = 0; // base conversations for the systematic single-fault sweep
		J script = J::arr();
		for (int xi = 0; xi < nx; xi++) {
			J ex = J::obj();
			if (g.chance(650))
				ex["pre"] = gen_edits(g, P, 4);
			ex["order"] = (long long)(g.next() & 0xffffffff);
			if (focus == "C17" && g.chance(700)) {
				J v = J::arr();
				for (int k = 0; k < 3; k++)
					v.push(g.chance(750) ? g.pick(BV) : (long long)g.below(4294967296ull));
				ex["iv"] = v;
			}
			if (g.chance(p_fault)) {
				unsigned k = (unsigned)g.below(100);
				if (k < 45) {
					J muts = J::arr();
					// valid announce/withdraw pairs of one record ahead of the failing PDU: the rollback has to cope
					int npairs = g.chance(400) ? (int)g.range(1, 3) : 0;
					for (int q = 0; q < npairs; q++) {
						J m = mut(g.chance(500) ? "annwd" : "wdann", g);
						m["tag"] = (long long)g.below(60000);
						muts.push(m);
					}
					muts.push(gen_listed_mut(g, focus));
					if (g.chance(120))
						muts.push(gen_listed_mut(g, focus));
					ex["muts"] = muts;
				} else if (k < 70) {
					J fs = J::arr();
					fs.push(gen_transport_fault(g, call_faults));
					if (g.chance(150))
						fs.push(gen_transport_fault(g, call_faults));
					ex["faults"] = fs;
				} else if (k < 78) {
					ex["resp"] = "reset";
				} else if (k < 86) {
					ex["resp"] = "err";
					ex["code"] = (long long)g.pick(std::vector<long long>{0, 1, 2, 2, 3, 4, 5, 6, 7, 8, 9, 255, 65535});
					ex["ver"] = (long long)g.pick(std::vector<long long>{0, 1, 1, 1, 2, 255});
					ex["enc"] = g.chance(700) ? 1 : 0;
					ex["text"] = g.chance(500) ? "simulated error" : "";
					if (g.chance(400))
						ex["close"] = 1;
				} else if (k < 90) {
					ex["resp"] = "hangup";
				} else if (k < 93) {
					ex["resp"] = "silent";
				} else if (k < 97) {
					J pre = ex.has("pre") ? ex["pre"] : J::arr();
					J r = J::arr();
					r.push("restart");
					r.push((long long)g.below(65536));
					r.push((long long)g.below(100));
					pre.push(r);
					ex["pre"] = pre;
				} else {
					J pre = ex.has("pre") ? ex["pre"] : J::arr();
					J r = J::arr();
					r.push(g.chance(500) ? "drophist" : "nodata");
					r.push(1);
					pre.push(r);
					ex["pre"] = pre;
				}
			} else if (g.chance(250)) {
				// valid but unusual: announce+withdraw pairs, embedded notify, zero field
				J muts = J::arr();
				unsigned k = (unsigned)g.below(100);
				J m = mut(k < 25 ? "annwd" : k < 35 ? "annwdkey" : k < 60 ? "wdann" : k < 80 ? "ins" : "zero", g);
				m["tag"] = (long long)g.below(60000);
				if (g.chance(500))
					m["old"] = 1;
				if (m.gets("k") == "ins")
					m["what"] = "notify";
				muts.push(m);
				if (g.chance(250)) {
					J m2 = mut("annwd", g);
					m2["tag"] = (long long)g.below(60000);
					muts.push(m2);
				}
				ex["muts"] = muts;
			}
			if (focus == "C17" && g.chance(350)) {
				// something arrives while the client is established and idle: a Serial Notify or a stray PDU, possibly with its
				// payload lagging behind its header across the refresh deadline
				J nf = J::obj();
				long long r = ex.has("iv") ? ex["iv"][(size_t)0].num() : c["iv"][(size_t)0].num();
				if (r < 1 || r > 86400)
					r = refresh;
				nf["after_s"] = g.chance(600) ? (r > 1 ? r - 1 : 0) : (long long)g.below((uint64_t)r + 1);
				nf["edits"] = J::arr();
				nf["send"] = 1;
				nf["kind"] = g.chance(500) ? "stray" : "notify";
				nf["gap_ms"] = (long long)g.pick(std::vector<long long>{0, 300, 1500, 2500, 5000});
				if (g.chance(250)) // the path stalls inside the 8-byte header
					nf["stall_b"] = (long long)g.range(1, 7);
				ex["notify"] = nf;
			} else if (g.chance(500)) {
				J nf = J::obj();
				nf["after_s"] = (long long)g.pick(std::vector<long long>{0, 1, 3, 30, 700});
				nf["edits"] = gen_edits(g, P, 3);
				nf["send"] = g.chance(850) ? 1 : 0;
				ex["notify"] = nf;
			}
			script.push(ex);
		}
		if (!bystander && focus == "C07" && g.chance(850)) {
			// the cache disappears for a time around the expire interval, possibly in the middle of a reload
			long long e = expire;
			if (script.size() > 0) {
				// the expire interval in force is whatever the last End of Data made it; use both candidates
				long long sent = c["iv"][(size_t)2].num();
				if (sent >= 600 && sent <= 172800 && g.chance(500))
					e = sent;
			}
			static const std::vector<long long> D = {-400, -3, -2, -1, 0, 1, 2, 3, 4, 60, 700};
			long long T = g.chance(200) ? e / 2 : g.chance(250) ? e * (long long)g.range(2, 10) : e + g.pick(D);
			{
				// keep the number of reconnect attempts during the outage bounded
				long long rmin = retry;
				long long sr = c["iv"][(size_t)1].num();
				if (sr >= 1 && sr < rmin)
					rmin = sr;
				if (T > rmin * 4000)
					T = rmin * 4000;
			}
			if (T < 1)
				T = 1;
			J ex = J::obj();
			if (g.chance(450)) { // interrupted reload first
				J pre = J::arr();
				J r = J::arr();
				r.push("restart");
				r.push((long long)g.below(65536));
				r.push((long long)g.below(100));
				pre.push(r);
				ex["pre"] = pre;
				J ex2 = J::obj();
				J fs = J::arr();
				J f = J::obj();
				f["kind"] = "cut";
				f["b"] = (long long)g.below(100000);
				f["close"] = 1;
				fs.push(f);
				ex2["faults"] = fs;
				ex2["down_s"] = T;
				script.push(ex);
				script.push(ex2);
			} else {
				if (g.chance(500))
					ex["resp"] = "hangup";
				ex["down_s"] = T;
				script.push(ex);
			}
		}
		if (focus == "C15" && g.chance(600)) {
			// outages that push groups into ERROR and back
			J ex = J::obj();
			if (g.chance(500))
				ex["resp"] = "hangup";
			ex["down_s"] = (long long)g.pick(std::vector<long long>{5, 90, 700, 5000});
			size_t pos = script.size() ? (size_t)g.below(script.size() + 1) : 0;
			script.a.insert(script.a.begin() + (long)pos, ex);
		}
		if (!bystander && focus == "C13") {
			// version games at the start of the conversation and later
			for (size_t i = 0; i < script.size(); i++) {
				J &ex = script[i];
				unsigned k = (unsigned)g.below(100);
				if (k < 15)
					ex["rv"] = 0;
				else if (k < 27) {
					ex["resp"] = "err";
					ex["code"] = 4;
					ex["ver"] = (long long)g.pick(std::vector<long long>{0, 0, 1, 2, 255});
					ex["enc"] = 1;
					ex["text"] = "";
					ex["close"] = g.chance(700) ? 1 : 0;
				} else if (k < 37)
					ex["resp"] = "hangup";
				else if (k < 50) {
					J muts = J::arr();
					J m = mut(g.chance(500) ? "ver" : "verall", g);
					m["v"] = (long long)g.pick(std::vector<long long>{0, 0, 1, 2, 255});
					muts.push(m);
					ex["muts"] = muts;
				} else if (k < 56) {
					J muts = J::arr();
					muts.push(mut("eodfmt", g));
					ex["muts"] = muts;
				}
			}
		}
		if (!bystander && focus == "C04") {
			for (size_t i = 0; i < script.size(); i++) {
				J &ex = script[i];
				unsigned k = (unsigned)g.below(100);
				J muts = ex.has("muts") ? ex["muts"] : J::arr();
				if (k < 30) {
					int nb = (int)g.range(1, 4);
					for (int q = 0; q < nb; q++) {
						J m = mut("byte", g);
						m["off"] = (long long)g.below(64);
						m["v"] = (long long)g.pick(std::vector<long long>{0, 1, 2, 32, 33, 128, 129, 255, (long long)g.below(256)});
						muts.push(m);
					}
					ex["muts"] = muts;
				} else if (k < 42) {
					J m = mut("errpdu", g);
					m["code"] = (long long)g.below(10);
					m["text"] = g.chance(500) ? "boom" : "";
					m["enc"] = g.chance(500) ? 1 : 0;
					if (g.chance(600))
						m["enc_len"] = (long long)g.pick(std::vector<long long>{0, 1, 7, 8, 9, 12, 3000, 3232, 3240, 65536, 4294967295ll});
					if (g.chance(400))
						m["len"] = (long long)g.pick(std::vector<long long>{12, 15, 16, 17, 20, 24, 3248, 3249});
					muts.push(m);
					ex["muts"] = muts;
				} else if (k < 50) {
					ex["resp"] = "raw";
					std::string hx;
					int nbytes = (int)g.range(1, 200);
					for (int q = 0; q < nbytes; q++) {
						char b[4];
						snprintf(b, sizeof(b), "%02x", (unsigned)g.below(g.chance(500) ? 12 : 256));
						hx += b;
					}
					ex["hex"] = hx;
					if (g.chance(500))
						ex["close"] = 1;
				} else if (k < 62) {
					J fs = ex.has("faults") ? ex["faults"] : J::arr();
					J f = J::obj();
					f["kind"] = "cut";
					f["b"] = (long long)g.below(100000);
					f["close"] = g.chance(500) ? 1 : 0;
					fs.push(f);
					ex["faults"] = fs;
				}
			}
		}
		// a "nodata" phase must end inside the script, else the tail could never converge
		{
			J ex = J::obj();
			J pre = J::arr();
			J r = J::arr();
			r.push("nodata");
			r.push(0);
			pre.push(r);
			ex["pre"] = pre;
			script.push(ex);
		}
		c["script"] = script;
		J opens = J::arr();
		int no = bystander ? 0 : (int)g.range(0, 6);
		for (int i = 0; i < no; i++) {
			unsigned k = (unsigned)g.below(100);
			if (k < 60)
				opens.push("ok");
			else if (k < 85)
				opens.push("fail");
			else {
				J o = J::obj();
				o["slow"] = (long long)g.range(1, 30);
				o["then"] = g.chance(500) ? "ok" : "fail";
				opens.push(o);
			}
		}
		c["opens"] = opens;
		caches.push(c);
	}
	plan["caches"] = caches;
	J chunk = J::obj();
	chunk["mode"] = g.pick(std::vector<const char *>{"all", "all", "rand", "rand", "one"});
	chunk["seed"] = (long long)(g.next() & 0x3fffffffffffffffull);
	plan["chunk"] = chunk;
	J lat = J::obj();
	lat["seed"] = (long long)(g.next() & 0x3fffffffffffffffull);
	lat["min_ms"] = (long long)g.pick(std::vector<long long>{1, 1, 20, 900});
	lat["jitter_ms"] = (long long)g.pick(std::vector<long long>{0, 5, 50, 2500});
	plan["lat"] = lat;
	J oper = J::arr();
	if (focus == "C07" && g.chance(400)) {
		long long t = (long long)g.below(2000000);
		int n = (int)g.range(1, 3);
		for (int i = 0; i < n; i++) {
			J o = J::obj();
			o["at_ms"] = t;
			o["op"] = "stop";
			oper.push(o);
			t += (long long)g.below(900000) + 1;
			J o2 = J::obj();
			o2["at_ms"] = t;
			o2["op"] = "start";
			oper.push(o2);
			t += (long long)g.below(3000000) + 1;
		}
	}
	if (focus == "C15" || focus == "C17") {
		J cases = J::arr();
		int nc = (int)g.range(1, 4);
		for (int i = 0; i < nc; i++) {
			J cs = J::obj();
			unsigned k = (unsigned)g.below(100);
			if (focus == "C17" || k < 35) {
				static const std::vector<long long> B = {0, 1, 2, 599, 600, 601, 7199, 7200, 7201, 86399, 86400, 86401, 172799, 172800, 172801, 4294967295ll};
				cs["kind"] = "iv";
				cs["refresh"] = g.chance(600) ? g.pick(B) : 3600;
				cs["expire"] = g.chance(600) ? g.pick(B) : 7200;
				cs["retry"] = g.chance(600) ? g.pick(B) : 600;
			} else if (k < 50)
				cs["kind"] = "empty";
			else if (k < 70) {
				cs["kind"] = "nosock";
				cs["which"] = (long long)g.below(2);
			} else if (k < 92) {
				cs["kind"] = "duppref";
				cs["p0"] = (long long)g.below(256);
			} else
				cs["kind"] = "one";
			cases.push(cs);
		}
		plan["init_cases"] = cases;
	}
	if (focus == "C15") {
		int nops = (int)g.range(0, 5);
		long long t = 0;
		std::vector<long long> prefs;
		for (size_t i = 0; i < groups.size(); i++)
			prefs.push_back(groups[i].geti("pref"));
		int used = 0;
		for (size_t i = 0; i < groups.size(); i++)
			used += (int)groups[i]["sockets"].size();
		for (int i = 0; i < nops; i++) {
			t += (long long)g.pick(std::vector<long long>{0, 1, 500, 20000, 700000, 4000000});
			J o = J::obj();
			o["at_ms"] = t;
			if (g.chance(500)) {
				o["op"] = "addgroup";
				long long pref = g.chance(350) && !prefs.empty() ? prefs[g.below(prefs.size())] : (long long)g.below(256);
				o["pref"] = pref;
				J ss = J::arr();
				ss.push((long long)(used < ncaches ? used : (int)g.below((uint64_t)ncaches)));
				if (used < ncaches)
					used++;
				o["sockets"] = ss;
				prefs.push_back(pref);
			} else {
				o["op"] = "rmgroup";
				o["pref"] = g.chance(750) && !prefs.empty() ? prefs[g.below(prefs.size())] : (long long)g.below(256);
			}
			oper.push(o);
		}
	}
	if ((focus == "C07" || focus == "C03" || focus == "C05" || focus == "C13") && oper.size() == 0 && g.chance(focus == "C07" ? 300 : 200)) {
		// the operator stops (and restarts) the manager at a chosen point of the socket thread's work: in the middle of
		// applying a response (k-th update callback), at its k-th receive call, or at a state change
		J o = J::obj();
		o["at_ms"] = 0;
		o["op"] = "stop";
		J on = J::obj();
		unsigned k = (unsigned)g.below(100);
		on["ev"] = k < 55 ? "pfx_cb" : k < 85 ? "recv" : "status";
		on["sock"] = g.chance(700) ? 0 : -1;
		on["n"] = (long long)(k < 55 ? g.range(1, 40) : k < 85 ? g.range(1, 120) : g.range(1, 12));
		if (focus == "C13" ? g.chance(700) : g.chance(120)) {
			// the stop lands between the transport noticing that the cache hung up and the library acting on it
			on["ev"] = "recv_closed";
			on["n"] = (long long)g.range(1, 3);
		} else if (g.chance(150)) {
			on["ev"] = "resp_end"; // the socket thread is about to apply a complete answer
			on["n"] = (long long)g.range(1, 8);
		}
		o["on"] = on;
		oper.push(o);
		J o2 = J::obj();
		o2["at_ms"] = 0;
		o2["op"] = "start";
		J on2 = J::obj();
		on2["ev"] = "none";
		o2["delay_ms"] = (long long)g.pick(std::vector<long long>{0, 1, 1000, 70000});
		oper.push(o2);
	}
	plan["oper"] = oper;
	if (focus == "C04")
		plan["hostile"] = 1;
	J end = J::obj();
	end["mode"] = focus == "C15" ? "time" : "converge";
	end["max_s"] = focus == "C15" ? g.pick(std::vector<long long>{300, 5000, 90000}) : 120ll * 86400ll;
	plan["end"] = end;
	return plan;
}
