// Reference models (DESIGN §7): trivially simple, written from the property statements,
// sharing no algorithm with the library (no trie, no hash table, no lrtr_get_bits).
#pragma once
#include "common.hpp"
#include "rtrlib_c.hpp"

#include <algorithm>
#include <array>
#include <set>
#include <tuple>

typedef unsigned __int128 u128;

struct PfxRec {
	int fam = 4; // 4 or 6
	u128 addr = 0; // left aligned: bit 127 is the first bit of the address for both families
	int len = 0;
	int maxlen = 0;
	uint32_t asn = 0;
	int src = 0; // source index (socket index), never a pointer
	auto tie() const { return std::tie(fam, addr, len, maxlen, asn, src); }
	bool operator<(const PfxRec &o) const { return tie() < o.tie(); }
	bool operator==(const PfxRec &o) const { return tie() == o.tie(); }
	int width() const { return fam == 4 ? 32 : 128; }
	std::string str() const
	{
		char b[128];
		if (fam == 4)
			snprintf(b, sizeof(b), "%u.%u.%u.%u/%d-%d AS%u s%d", (unsigned)(addr >> 120) & 255,
				 (unsigned)(addr >> 112) & 255, (unsigned)(addr >> 104) & 255, (unsigned)(addr >> 96) & 255, len,
				 maxlen, asn, src);
		else
			snprintf(b, sizeof(b), "%08x:%08x:%08x:%08x/%d-%d AS%u s%d", (unsigned)(addr >> 96),
				 (unsigned)(addr >> 64), (unsigned)(addr >> 32), (unsigned)addr, len, maxlen, asn, src);
		return b;
	}
	J json() const
	{
		J j = J::arr();
		j.push(fam);
		if (fam == 4)
			j.push((uint32_t)(addr >> 96));
		else
			for (int k = 0; k < 4; k++)
				j.push((uint32_t)(addr >> (96 - 32 * k)));
		j.push(len);
		j.push(maxlen);
		j.push(asn);
		j.push(src);
		return j;
	}
	static PfxRec from(const J &j)
	{
		PfxRec r;
		size_t k = 0;
		r.fam = (int)j[k++].num(4) == 6 ? 6 : 4;
		if (r.fam == 4)
			r.addr = (u128)(uint32_t)j[k++].num() << 96;
		else {
			r.addr = 0;
			for (int w = 0; w < 4; w++)
				r.addr |= (u128)(uint32_t)(k < j.size() ? j[k].num() : 0) << (96 - 32 * w), k++;
		}
		r.len = (int)(k < j.size() ? j[k].num() : 0), k++;
		r.maxlen = (int)(k < j.size() ? j[k].num() : 0), k++;
		r.asn = (uint32_t)(k < j.size() ? j[k].num() : 0), k++;
		r.src = (int)(k < j.size() ? j[k].num() : 0), k++;
		// keep replayed / shrunk plans inside the statement's domain
		int w = r.width();
		if (r.len < 0)
			r.len = 0;
		if (r.len > w)
			r.len = w;
		if (r.maxlen < 0)
			r.maxlen = 0;
		if (r.maxlen > 255)
			r.maxlen = 255;
		r.addr = mask(r.addr, r.len, r.fam);
		return r;
	}
	static u128 mask(u128 a, int len, int fam)
	{
		if (fam == 4)
			a &= (u128)0xffffffffu << 96;
		if (len <= 0)
			return 0;
		if (len >= 128)
			return a;
		return a & ~(((u128)1 << (128 - len)) - 1);
	}
};

static inline void to_lrtr_addr(int fam, u128 addr, lrtr_ip_addr *out)
{
	memset(out, 0, sizeof(*out));
	if (fam == 4) {
		out->ver = LRTR_IPV4;
		out->u.addr4.addr = (uint32_t)(addr >> 96);
	} else {
		out->ver = LRTR_IPV6;
		for (int k = 0; k < 4; k++)
			out->u.addr6.addr[k] = (uint32_t)(addr >> (96 - 32 * k));
	}
}

static inline u128 from_lrtr_addr(const lrtr_ip_addr *a, int *fam)
{
	if (a->ver == LRTR_IPV4) {
		*fam = 4;
		return (u128)a->u.addr4.addr << 96;
	}
	*fam = 6;
	u128 r = 0;
	for (int k = 0; k < 4; k++)
		r |= (u128)a->u.addr6.addr[k] << (96 - 32 * k);
	return r;
}

enum { ST_VALID = 0, ST_NOTFOUND = 1, ST_INVALID = 2 };

struct PfxModel {
	std::set<PfxRec> recs;

	static bool covers(const PfxRec &r, int fam, u128 addr, int qlen)
	{
		if (r.fam != fam || r.len > qlen)
			return false;
		if (r.len == 0)
			return true;
		return ((r.addr ^ addr) >> (128 - r.len)) == 0;
	}
	// RFC 6811 as worded in C01
	int validate(uint32_t asn, int fam, u128 addr, int qlen, std::vector<PfxRec> *covering = nullptr) const
	{
		bool any = false, match = false;
		for (auto &r : recs) {
			if (!covers(r, fam, addr, qlen))
				continue;
			any = true;
			if (covering)
				covering->push_back(r);
			if (r.asn != 0 && r.asn == asn && r.maxlen >= qlen)
				match = true;
		}
		return match ? ST_VALID : any ? ST_INVALID : ST_NOTFOUND;
	}
	bool add(const PfxRec &r) { return recs.insert(r).second; }
	bool remove(const PfxRec &r) { return recs.erase(r) > 0; }
	size_t src_remove(int src)
	{
		size_t n = 0;
		for (auto it = recs.begin(); it != recs.end();)
			if (it->src == src)
				it = recs.erase(it), n++;
			else
				++it;
		return n;
	}
	std::set<PfxRec> of_src(int src) const
	{
		std::set<PfxRec> s;
		for (auto &r : recs)
			if (r.src == src)
				s.insert(r);
		return s;
	}
};

struct SpkiRec {
	uint32_t asn = 0;
	std::array<uint8_t, SKI_SIZE> ski{};
	std::array<uint8_t, SPKI_SIZE> spki{};
	int src = 0;
	auto tie() const { return std::tie(asn, ski, spki, src); }
	bool operator<(const SpkiRec &o) const { return tie() < o.tie(); }
	bool operator==(const SpkiRec &o) const { return tie() == o.tie(); }
	// Compact form: ski and spki are derived from small ids so that plans stay readable:
	// ski = id byte repeated with index, spki likewise.
	static SpkiRec make(uint32_t asn, int ski_id, int spki_id, int src)
	{
		// Keys look like real ones: every P-256 SubjectPublicKeyInfo starts with the same 27-byte DER header, and two
		// ids of one "family" (id / 8) differ in a single late byte only; SKIs of one family (id / 4) differ in their
		// last bytes only. Comparisons that look at a prefix of the field cannot tell them apart.
		static const uint8_t der[27] = {0x30, 0x59, 0x30, 0x13, 0x06, 0x07, 0x2a, 0x86, 0x48, 0xce, 0x3d, 0x02, 0x01, 0x06,
						0x08, 0x2a, 0x86, 0x48, 0xce, 0x3d, 0x03, 0x01, 0x07, 0x03, 0x42, 0x00, 0x04};
		SpkiRec r;
		r.asn = asn;
		int sfam = ski_id / 4;
		for (int i = 0; i < SKI_SIZE; i++)
			r.ski[i] = (uint8_t)(sfam * 7 + i * 13 + 1);
		r.ski[SKI_SIZE - 1 - (ski_id % 4)] ^= (uint8_t)(0x80 | (ski_id & 0x7f));
		int kfam = spki_id / 8;
		for (int i = 0; i < SPKI_SIZE; i++)
			r.spki[i] = i < 27 ? der[i] : (uint8_t)(kfam * 11 + i * 3 + 5);
		r.spki[27 + ((spki_id % 8) * 9) % 64] ^= (uint8_t)(0x40 | (spki_id & 0x3f));
		r.src = src;
		return r;
	}
	std::string str() const
	{
		char b[96];
		snprintf(b, sizeof(b), "AS%u ski=%02x%02x.. spki=%02x%02x.. s%d", asn, ski[0], ski[1], spki[0], spki[1], src);
		return b;
	}
};

struct SpkiModel {
	std::set<SpkiRec> recs;
	bool add(const SpkiRec &r) { return recs.insert(r).second; }
	bool remove(const SpkiRec &r) { return recs.erase(r) > 0; }
	size_t src_remove(int src)
	{
		size_t n = 0;
		for (auto it = recs.begin(); it != recs.end();)
			if (it->src == src)
				it = recs.erase(it), n++;
			else
				++it;
		return n;
	}
	std::set<SpkiRec> get_all(uint32_t asn, const std::array<uint8_t, SKI_SIZE> &ski) const
	{
		std::set<SpkiRec> s;
		for (auto &r : recs)
			if (r.asn == asn && r.ski == ski)
				s.insert(r);
		return s;
	}
	std::set<SpkiRec> by_ski(const std::array<uint8_t, SKI_SIZE> &ski) const
	{
		std::set<SpkiRec> s;
		for (auto &r : recs)
			if (r.ski == ski)
				s.insert(r);
		return s;
	}
	std::set<SpkiRec> of_src(int src) const
	{
		std::set<SpkiRec> s;
		for (auto &r : recs)
			if (r.src == src)
				s.insert(r);
		return s;
	}
};

// Mapping source index <-> the opaque `const struct rtr_socket *` the tables store.
struct SrcMap {
	std::vector<const rtr_socket *> ptr;
	int index(const rtr_socket *p) const
	{
		for (size_t i = 0; i < ptr.size(); i++)
			if (ptr[i] == p)
				return (int)i;
		return -1;
	}
};

static inline void to_pfx_record(const PfxRec &r, const SrcMap &sm, pfx_record *out)
{
	memset(out, 0, sizeof(*out));
	out->asn = r.asn;
	to_lrtr_addr(r.fam, r.addr, &out->prefix);
	out->min_len = (uint8_t)r.len;
	out->max_len = (uint8_t)r.maxlen;
	out->socket = sm.ptr[(size_t)r.src];
}

static inline PfxRec from_pfx_record(const pfx_record *p, const SrcMap &sm)
{
	PfxRec r;
	r.addr = from_lrtr_addr(&p->prefix, &r.fam);
	r.len = p->min_len;
	r.maxlen = p->max_len;
	r.asn = p->asn;
	r.src = sm.index(p->socket);
	return r;
}

static inline void to_spki_record(const SpkiRec &r, const SrcMap &sm, spki_record *out)
{
	memset(out, 0, sizeof(*out));
	out->asn = r.asn;
	memcpy(out->ski, r.ski.data(), SKI_SIZE);
	memcpy(out->spki, r.spki.data(), SPKI_SIZE);
	out->socket = sm.ptr[(size_t)r.src];
}

static inline SpkiRec from_spki_record(const spki_record *p, const SrcMap &sm)
{
	SpkiRec r;
	r.asn = p->asn;
	memcpy(r.ski.data(), p->ski, SKI_SIZE);
	memcpy(r.spki.data(), p->spki, SPKI_SIZE);
	r.src = sm.index(p->socket);
	return r;
}

// Enumerate the whole prefix table through the public for_each API.
static inline void enum_cb(const pfx_record *rec, void *data)
{
	((std::vector<pfx_record> *)data)->push_back(*rec);
}
static inline std::vector<PfxRec> enum_pfx(pfx_table *t, const SrcMap &sm)
{
	std::vector<pfx_record> raw;
	pfx_table_for_each_ipv4_record(t, enum_cb, &raw);
	pfx_table_for_each_ipv6_record(t, enum_cb, &raw);
	std::vector<PfxRec> out;
	for (auto &r : raw)
		out.push_back(from_pfx_record(&r, sm));
	return out;
}
