// Scenario "pfx": sequential operation histories on a private pfx_table against PfxModel.
// Serves C01 (validation vs RFC 6811), C02 (exact set), C09 (callback mirror, W1) and
// C18 (k-th allocation fails). DESIGN §8.
#include "models.hpp"
#include "scenario.hpp"

namespace {

struct PfxRun {
	const J &plan;
	RunCtx &ctx;
	pfx_table tbl;
	SrcMap sm;
	rtr_socket fake[4];
	PfxModel model;
	std::set<PfxRec> mirror;
	uint64_t fail_before = 0;
	bool cb_enabled = true;
	std::string want; // property filter for expensive checks
	PfxRun(const J &p, RunCtx &c) : plan(p), ctx(c) {}
};

PfxRun *g_run;

void pfx_cb(struct pfx_table *, const pfx_record rec, const bool added)
{
	PfxRun *R = g_run;
	if (!R)
		return;
	PfxRec r = from_pfx_record(&rec, R->sm);
	R->ctx.count("pfx_cb");
	if (added) {
		if (!R->mirror.insert(r).second)
			R->ctx.viol("C09", "cb-add-present", "C09:cb:add-of-present", "callback reports add of %s which the log already holds",
				    r.str().c_str());
	} else {
		if (!R->mirror.erase(r))
			R->ctx.viol("C09", "cb-rm-absent", "C09:cb:remove-of-absent", "callback reports removal of %s which the log does not hold",
				    r.str().c_str());
	}
}

bool injected_since(PfxRun &R)
{
	return simalloc_failures() != R.fail_before;
}

// full-content checks: enumeration == model (C02), mirror == model (C09)
void check_contents(PfxRun &R, const char *after)
{
	std::vector<PfxRec> en = enum_pfx(&R.tbl, R.sm);
	std::multiset<PfxRec> ms(en.begin(), en.end());
	R.ctx.count("enum_checks");
	for (auto &r : en)
		if (r.src < 0)
			R.ctx.viol("C02", "enum-bad-source", "C02:enum:unknown-source", "after %s: enumerated record %s has unknown source", after,
				   r.str().c_str());
	for (auto &r : R.model.recs) {
		size_t c = ms.count(r);
		if (c == 0)
			R.ctx.viol("C02", "enum-missing", "C02:enum:missing", "after %s: record %s is in the model but not enumerated", after,
				   r.str().c_str());
		else if (c > 1)
			R.ctx.viol("C02", "enum-dup", "C02:enum:duplicate", "after %s: record %s enumerated %zu times", after, r.str().c_str(), c);
	}
	for (auto &r : en)
		if (!R.model.recs.count(r)) {
			R.ctx.viol("C02", "enum-extra", "C02:enum:extra", "after %s: enumerated record %s is not in the model", after,
				   r.str().c_str());
			break;
		}
	if (R.cb_enabled && R.mirror != R.model.recs) {
		std::string d;
		for (auto &r : R.model.recs)
			if (!R.mirror.count(r)) {
				d = "missing add for " + r.str();
				break;
			}
		if (d.empty())
			for (auto &r : R.mirror)
				if (!R.model.recs.count(r)) {
					d = "missing remove for " + r.str();
					break;
				}
		R.ctx.viol("C09", "mirror-diverged", std::string("C09:mirror:after-") + after, "after %s: callback log differs from table: %s", after,
			   d.c_str());
		R.mirror = R.model.recs; // resynchronise so that one divergence is reported once
	}
}

void one_query(PfxRun &R, uint32_t asn, int fam, u128 addr, int qlen, bool with_reason)
{
	lrtr_ip_addr ip;
	to_lrtr_addr(fam, addr, &ip);
	std::vector<PfxRec> cov;
	int want = R.model.validate(asn, fam, addr, qlen, &cov);
	enum pfxv_state res = BGP_PFXV_STATE_NOT_FOUND;
	pfx_record *reason = nullptr;
	unsigned rlen = 0;
	R.fail_before = simalloc_failures();
	int rc = with_reason ? pfx_table_validate_r(&R.tbl, &reason, &rlen, asn, &ip, (uint8_t)qlen, &res)
			     : pfx_table_validate(&R.tbl, asn, &ip, (uint8_t)qlen, &res);
	R.ctx.count("queries");
	if (rc != PFX_SUCCESS) {
		if (injected_since(R)) {
			R.ctx.count("alloc_fail_in_validate");
			if (reason || rlen)
				R.ctx.viol("C18", "validate-error-leaves-reason", "C18:validate_r:error-with-reason",
					   "validate_r failed but left reason=%p len=%u", (void *)reason, rlen);
			return;
		}
		R.ctx.viol("C01", "validate-rc", "C01:validate:error-return", "validate returned %d without any allocation failure", rc);
		return;
	}
	PfxRec q;
	q.fam = fam;
	q.addr = addr;
	q.len = qlen;
	q.maxlen = qlen;
	q.asn = asn;
	if ((int)res != want) {
		static const char *nm[] = {"VALID", "NOT_FOUND", "INVALID"};
		R.ctx.viol("C01", std::string("state-") + nm[want] + "-as-" + nm[(int)res % 3], std::string("C01:state:") + nm[want] + "->" + nm[(int)res % 3],
			   "route %s: model says %s, library says %s (%zu covering records)", q.str().c_str(), nm[want], nm[(int)res % 3],
			   cov.size());
	} else if (with_reason) {
		std::multiset<PfxRec> got;
		for (unsigned i = 0; i < rlen; i++)
			got.insert(from_pfx_record(&reason[i], R.sm));
		std::multiset<PfxRec> covs(cov.begin(), cov.end());
		if (want == ST_NOTFOUND) {
			if (rlen != 0 || reason)
				R.ctx.viol("C01", "reason-notfound", "C01:reason:not-found-nonempty", "route %s NOT_FOUND but %u reasons returned",
					   q.str().c_str(), rlen);
		} else if (want == ST_INVALID) {
			if (got != covs)
				R.ctx.viol("C01", "reason-invalid", "C01:reason:invalid-not-exactly-covering",
					   "route %s INVALID: reasons (%zu) differ from covering set (%zu)", q.str().c_str(), got.size(), covs.size());
		} else {
			bool sub = true, hasmatch = false;
			for (auto &r : got) {
				if (got.count(r) > covs.count(r))
					sub = false;
				if (r.asn != 0 && r.asn == asn && r.maxlen >= qlen)
					hasmatch = true;
			}
			if (!sub || !hasmatch)
				R.ctx.viol("C01", "reason-valid", "C01:reason:valid-bad-reasons", "route %s VALID: reasons subset=%d has-match=%d",
					   q.str().c_str(), (int)sub, (int)hasmatch);
		}
	}
	if (reason)
		lrtr_free(reason);
}

// queries "near" every stored prefix; content-derived so that shrinking the op list keeps them meaningful
void query_batch(PfxRun &R, uint64_t salt, unsigned budget)
{
	std::set<std::tuple<int, u128, int>> nodes;
	std::set<uint32_t> asns = {0u, 1u};
	for (auto &r : R.model.recs) {
		nodes.insert({r.fam, r.addr, r.len});
		asns.insert(r.asn);
	}
	Rng q(sim_mix64(salt ^ (uint64_t)R.model.recs.size() * 0x9e37ull));
	std::vector<std::tuple<int, u128, int>> routes;
	for (auto &n : nodes) {
		int fam = std::get<0>(n), len = std::get<2>(n), w = fam == 4 ? 32 : 128;
		u128 a = std::get<1>(n);
		routes.push_back({fam, a, len});
		if (len < w) {
			routes.push_back({fam, a, len + 1});
			routes.push_back({fam, a | ((u128)1 << (127 - len)), len + 1});
			routes.push_back({fam, a, w});
			int l2 = len + 1 + (int)q.below((uint64_t)(w - len));
			u128 rnd = ((u128)q.next() << 64) | q.next();
			routes.push_back({fam, PfxRec::mask(a | (rnd >> len), l2, fam), l2});
		}
		if (len > 0) {
			routes.push_back({fam, PfxRec::mask(a, len - 1, fam), len - 1});
			routes.push_back({fam, a ^ ((u128)1 << (128 - len)), len}); // sibling
		}
	}
	for (auto &r : R.model.recs) // lengths around each record's max-length
		for (int d = -1; d <= 1; d++) {
			int l = r.maxlen + d, w = r.width();
			if (l >= r.len && l <= w)
				routes.push_back({r.fam, r.addr, l});
		}
	// a few unrelated routes
	for (int k = 0; k < 3; k++) {
		int fam = q.chance(500) ? 4 : 6, w = fam == 4 ? 32 : 128;
		int l = (int)q.below((uint64_t)w + 1);
		u128 rnd = ((u128)q.next() << 64) | q.next();
		routes.push_back({fam, PfxRec::mask(rnd, l, fam), l});
	}
	std::vector<uint32_t> av(asns.begin(), asns.end());
	size_t total = routes.size() * av.size();
	for (size_t i = 0; i < routes.size(); i++)
		for (size_t j = 0; j < av.size(); j++) {
			if (total > budget && q.below(total) >= budget)
				continue;
			bool with_reason = q.chance(600);
			one_query(R, av[j], std::get<0>(routes[i]), std::get<1>(routes[i]), std::get<2>(routes[i]), with_reason);
		}
}

void apply_op(PfxRun &R, const J &op, size_t idx)
{
	const std::string kind = op.gets("op");
	R.fail_before = simalloc_failures();
	if (kind == "add" || kind == "rm") {
		PfxRec r = PfxRec::from(op["r"]);
		r.src = (int)((unsigned)r.src % 3u);
		pfx_record pr;
		to_pfx_record(r, R.sm, &pr);
		bool present = R.model.recs.count(r) > 0;
		int rc = kind == "add" ? pfx_table_add(&R.tbl, &pr) : pfx_table_remove(&R.tbl, &pr);
		int want = kind == "add" ? (present ? PFX_DUPLICATE_RECORD : PFX_SUCCESS) : (present ? PFX_SUCCESS : PFX_RECORD_NOT_FOUND);
		R.ctx.count(kind == "add" ? (present ? "op_add_dup" : "op_add") : (present ? "op_rm" : "op_rm_absent"));
		if (rc == PFX_ERROR && injected_since(R)) {
			R.ctx.count("alloc_fail_in_op");
			// no partial effect: model unchanged, verified by check_contents below
		} else if (rc != want) {
			R.ctx.viol("C02", "rc-" + kind, "C02:rc:" + kind, "op %zu %s %s: returned %d, expected %d", idx, kind.c_str(), r.str().c_str(), rc,
				   want);
			// follow the library so later checks are about later ops
			if (rc == PFX_SUCCESS) {
				if (kind == "add")
					R.model.add(r);
				else
					R.model.remove(r);
			}
		} else if (rc == PFX_SUCCESS) {
			if (kind == "add")
				R.model.add(r);
			else
				R.model.remove(r);
		}
		check_contents(R, kind.c_str());
	} else if (kind == "srcrm") {
		int s = (int)((unsigned)op.geti("src") % 3u);
		int rc = pfx_table_src_remove(&R.tbl, R.sm.ptr[(size_t)s]);
		R.ctx.count("op_srcrm");
		if (rc == PFX_ERROR && injected_since(R)) {
			R.ctx.count("alloc_fail_in_op");
		} else if (rc != PFX_SUCCESS) {
			R.ctx.viol("C02", "rc-srcrm", "C02:rc:srcrm", "op %zu src_remove(%d) returned %d", idx, s, rc);
		} else {
			R.model.src_remove(s);
		}
		check_contents(R, "srcrm");
	} else if (kind == "reload") {
		// the library's own atomic-reload recipe (packets.c): copy others, add new set, swap, diff, free
		int s = (int)((unsigned)op.geti("src") % 3u);
		R.ctx.count("op_reload");
		pfx_table *sh = (pfx_table *)lrtr_malloc(sizeof(pfx_table));
		if (!sh) {
			R.ctx.count("alloc_fail_in_op");
			return;
		}
		pfx_table_init(sh, NULL);
		bool ok = pfx_table_copy_except_socket(&R.tbl, sh, R.sm.ptr[(size_t)s]) == PFX_SUCCESS;
		std::set<PfxRec> fresh;
		const J &recs = op["new"];
		for (size_t k = 0; ok && k < recs.size(); k++) {
			PfxRec r = PfxRec::from(recs[k]);
			r.src = s;
			pfx_record pr;
			to_pfx_record(r, R.sm, &pr);
			int rc = pfx_table_add(sh, &pr);
			if (rc == PFX_SUCCESS)
				fresh.insert(r);
			else if (rc == PFX_ERROR)
				ok = false;
			else if (rc == PFX_DUPLICATE_RECORD && !fresh.count(r)) {
				R.ctx.viol("C02", "rc-shadow-add", "C02:rc:shadow-add", "shadow add of %s reported duplicate", r.str().c_str());
			}
		}
		if (!ok && !injected_since(R))
			R.ctx.viol("C02", "reload-build", "C02:reload:build-failed", "building the shadow table failed without allocation failure");
		if (ok) {
			pfx_table_swap(&R.tbl, sh);
			pfx_table_notify_diff(&R.tbl, sh, R.sm.ptr[(size_t)s]);
			R.model.src_remove(s);
			for (auto &r : fresh)
				R.model.add(r);
		}
		pfx_table_free_without_notify(sh);
		lrtr_free(sh);
		check_contents(R, ok ? "reload" : "reload-failed");
	} else if (kind == "q") {
		query_batch(R, (uint64_t)op.geti("salt"), (unsigned)op.geti("n", 400));
	}
}

void run_pfx(const J &plan, RunCtx &ctx)
{
	PfxRun R(plan, ctx);
	g_run = &R;
	memset(R.fake, 0, sizeof(R.fake));
	for (int i = 0; i < 3; i++)
		R.sm.ptr.push_back(&R.fake[i]);
	R.cb_enabled = plan.geti("callbacks", 1) != 0;
	pfx_table_init(&R.tbl, R.cb_enabled ? pfx_cb : NULL);
	uint64_t fail_at = (uint64_t)plan.geti("alloc_fail_at", 0);
	if (fail_at) {
		simalloc_fail_at(fail_at);
		ctx.prop_override = "C18";
	}
	const J &ops = plan["ops"];
	unsigned qevery = (unsigned)plan.geti("query_every", 1);
	unsigned qn = (unsigned)plan.geti("query_budget", 120);
	J per_op = J::arr();
	for (size_t i = 0; i < ops.size(); i++) {
		uint64_t c0 = simalloc_calls();
		if (ops[i].gets("op") == "failnext") { // fault attached to the following op: its k-th allocation fails
			simalloc_fail_at(simalloc_calls() + (uint64_t)ops[i].geti("k", 1));
			ctx.prop_override = "C18";
			per_op.push(0);
			continue;
		}
		apply_op(R, ops[i], i);
		if (qevery && (i % qevery) == qevery - 1)
			query_batch(R, i, qn);
		per_op.push((long long)(simalloc_calls() - c0));
	}
	ctx.extra["alloc_per_op"] = per_op;
	simalloc_fail_off();
	ctx.counters["alloc_calls"] = simalloc_calls();
	ctx.counters["alloc_failures"] = simalloc_failures();
	ctx.nontrivial = ops.size() >= 10 && ctx.counters["queries"] > 0;
	pfx_table_free(&R.tbl);
	if (R.cb_enabled && !R.mirror.empty())
		ctx.viol("C09", "free-not-notified", "C09:mirror:after-free", "after pfx_table_free the callback log still holds %zu records",
			 R.mirror.size());
	g_run = nullptr;
}

// ------------------------------------------------------------------ generator
struct Cand {
	int fam;
	u128 addr;
	int len;
};

J gen_pfx(uint64_t seed, const J &opts)
{
	Rng g(seed_label(seed, "gen-pfx"));
	J plan = J::obj();
	plan["scn"] = "pfx";
	plan["seed"] = (long long)(seed & 0x3fffffffffffffffull);
	plan["sim"] = gen_sim_part(g, seed, false, 0);
	int maxops = (int)opts.geti("maxops", 120);
	int nops = (int)g.range(8, maxops);
	int fammode = (int)g.below(4); // 0: v4, 1: v6, 2,3: mixed
	bool deep = g.chance(60);
	std::vector<Cand> cands;
	int nchains = (int)g.range(1, 3);
	static const std::vector<int> L4 = {0, 1, 2, 7, 8, 9, 15, 16, 17, 23, 24, 25, 30, 31, 32};
	static const std::vector<int> L6 = {0, 1, 2, 31, 32, 33, 47, 48, 63, 64, 65, 95, 96, 97, 126, 127, 128};
	for (int c = 0; c < nchains; c++) {
		int fam = fammode == 0 ? 4 : fammode == 1 ? 6 : (g.chance(500) ? 4 : 6);
		u128 base = ((u128)g.next() << 64) | g.next();
		if (g.chance(150))
			base = 0; // all-zero address: every bit test goes left
		if (g.chance(100))
			base = ~(u128)0;
		const std::vector<int> &L = fam == 4 ? L4 : L6;
		int w = fam == 4 ? 32 : 128;
		if (deep && c == 0) {
			int from = (int)g.range(0, 3), to = (int)g.range(w - 6, w);
			for (int l = from; l <= to; l++)
				cands.push_back({fam, PfxRec::mask(base, l, fam), l});
		} else {
			for (int l : L)
				if (g.chance(650)) {
					u128 a = PfxRec::mask(base, l, fam);
					cands.push_back({fam, a, l});
					if (l > 0 && g.chance(350))
						cands.push_back({fam, a ^ ((u128)1 << (128 - l)), l});
					if (l > 1 && g.chance(200)) {
						int b = (int)g.below((uint64_t)l);
						cands.push_back({fam, a ^ ((u128)1 << (127 - b)), l});
					}
				}
		}
	}
	if (cands.empty())
		cands.push_back({4, (u128)0x0a000000u << 96, 8});
	static const std::vector<uint32_t> ASN = {0u, 64500u, 64501u, 4200000000u};
	auto draw_rec = [&]() {
		const Cand &c = cands[g.below(cands.size())];
		PfxRec r;
		r.fam = c.fam;
		r.addr = c.addr;
		r.len = c.len;
		int w = r.width();
		switch (g.below(8)) {
		case 0:
		case 1: r.maxlen = r.len; break;
		case 2: r.maxlen = w; break;
		case 3: r.maxlen = r.len < w ? r.len + 1 : w; break;
		case 4:
		case 5: r.maxlen = (int)g.range(r.len, w); break;
		case 6: r.maxlen = g.chance(500) ? (int)g.range(0, r.len) : (int)g.range(r.len, w); break;
		default: r.maxlen = g.chance(200) ? (int)g.range(w, 255) : (int)g.range(r.len, w);
		}
		r.asn = g.chance(80) ? (uint32_t)g.below(5) : ASN[g.below(ASN.size())];
		r.src = (int)g.below(3);
		return r;
	};
	PfxModel shadow;
	J ops = J::arr();
	if (g.chance(25)) {
		// a complete chain /0 ... /width on one path (the deepest node sits as deep as the address is wide), then
		// every route near it is queried
		int fam = g.chance(500) ? 4 : 6, w = fam == 4 ? 32 : 128;
		u128 base = g.chance(500) ? ~(u128)0 : (((u128)g.next() << 64) | g.next());
		std::vector<int> order;
		for (int l = 0; l <= w; l++)
			order.push_back(l);
		for (size_t i = order.size() - 1; i > 0; i--)
			std::swap(order[i], order[g.below(i + 1)]);
		for (int l : order) {
			PfxRec r;
			r.fam = fam;
			r.len = l;
			r.addr = PfxRec::mask(base, l, fam);
			r.maxlen = g.chance(500) ? l : w;
			r.asn = 64500;
			r.src = (int)g.below(3);
			J op = J::obj();
			op["op"] = "add";
			op["r"] = r.json();
			ops.push(op);
		}
		J q = J::obj();
		q["op"] = "q";
		q["salt"] = (long long)g.below(1000);
		q["n"] = 100000;
		ops.push(q);
		plan["ops"] = ops;
		plan["callbacks"] = 1;
		plan["query_every"] = 0;
		plan["query_budget"] = 0;
		return plan;
	}
	for (int i = 0; i < nops; i++) {
		J op = J::obj();
		unsigned k = (unsigned)g.below(100);
		auto pick_existing = [&]() {
			auto it = shadow.recs.begin();
			std::advance(it, (long)g.below(shadow.recs.size()));
			return *it;
		};
		if (k < 45 || shadow.recs.empty()) {
			PfxRec r = draw_rec();
			op["op"] = "add";
			op["r"] = r.json();
			shadow.add(r);
		} else if (k < 55) {
			PfxRec r = pick_existing(); // duplicate add
			if (g.chance(400)) { // or a near-duplicate differing in one field
				switch (g.below(3)) {
				case 0: r.src = (r.src + 1) % 3; break;
				case 1: r.asn = ASN[g.below(ASN.size())]; break;
				default: r.maxlen = (int)g.range(r.len, r.width());
				}
			}
			op["op"] = "add";
			op["r"] = r.json();
			shadow.add(r);
		} else if (k < 80) {
			PfxRec r = pick_existing();
			op["op"] = "rm";
			op["r"] = r.json();
			shadow.remove(r);
		} else if (k < 87) {
			PfxRec r = g.chance(500) ? draw_rec() : pick_existing();
			if (g.chance(600)) // absent variant of a present record
				r.src = (r.src + 1) % 3;
			op["op"] = "rm";
			op["r"] = r.json();
			shadow.remove(r);
		} else if (k < 94) {
			int s = (int)g.below(3);
			op["op"] = "srcrm";
			op["src"] = s;
			shadow.src_remove(s);
		} else {
			int s = (int)g.below(3);
			op["op"] = "reload";
			op["src"] = s;
			J recs = J::arr();
			auto old = shadow.of_src(s);
			shadow.src_remove(s);
			int n = (int)g.range(0, 8);
			for (int q = 0; q < n; q++) {
				PfxRec r;
				if (!old.empty() && g.chance(500)) {
					auto it = old.begin();
					std::advance(it, (long)g.below(old.size()));
					r = *it;
				} else
					r = draw_rec();
				r.src = s;
				recs.push(r.json());
				shadow.add(r);
			}
			op["new"] = recs;
		}
		ops.push(op);
	}
	plan["ops"] = ops;
	plan["callbacks"] = 1;
	plan["query_every"] = (int)g.range(1, 3);
	plan["query_budget"] = (int)opts.geti("query_budget", 150);
	return plan;
}

} // namespace

extern const Scenario scn_pfx = {"pfx", gen_pfx, run_pfx};
