// Scenario "spki": sequential operation histories on a private spki_table against SpkiModel.
// Serves C10 (exact set + callbacks) and C18 (k-th allocation fails). DESIGN §8.
#include "models.hpp"
#include "scenario.hpp"

extern "C" {
#include "third-party/tommyds/tommyhash.h"
}

namespace {

struct SpkiRun {
	const J &plan;
	RunCtx &ctx;
	spki_table tbl;
	SrcMap sm;
	rtr_socket fake[4];
	SpkiModel model;
	std::set<SpkiRec> mirror;
	uint64_t fail_before = 0;
	std::vector<uint32_t> asns;
	int nski = 5;
	SpkiRun(const J &p, RunCtx &c) : plan(p), ctx(c) {}
};

SpkiRun *g_run;

void spki_cb(struct spki_table *, const spki_record rec, const bool added)
{
	SpkiRun *R = g_run;
	if (!R)
		return;
	SpkiRec r = from_spki_record(&rec, R->sm);
	R->ctx.count("spki_cb");
	if (added) {
		if (!R->mirror.insert(r).second)
			R->ctx.viol("C10", "cb-add-present", "C10:cb:add-of-present", "callback reports add of %s which the log already holds",
				    r.str().c_str());
	} else {
		if (!R->mirror.erase(r))
			R->ctx.viol("C10", "cb-rm-absent", "C10:cb:remove-of-absent", "callback reports removal of %s which the log does not hold",
				    r.str().c_str());
	}
}

bool injected_since(SpkiRun &R)
{
	return simalloc_failures() != R.fail_before;
}

SpkiRec rec_from(const J &j)
{
	return SpkiRec::make((uint32_t)j[(size_t)0].num(), (int)j[(size_t)1].num(), (int)j[(size_t)2].num(), (int)((unsigned)j[(size_t)3].num() % 3u));
}

void check_lookups(SpkiRun &R, const char *after)
{
	// lookup by (AS, SKI): hash table side
	std::set<uint32_t> asns(R.asns.begin(), R.asns.end());
	std::set<std::array<uint8_t, SKI_SIZE>> skis;
	for (int s = 0; s < R.nski; s++)
		skis.insert(SpkiRec::make(0, s, 0, 0).ski);
	for (auto &r : R.model.recs) {
		asns.insert(r.asn);
		skis.insert(r.ski);
	}
	R.ctx.count("lookup_checks");
	for (auto &ski : skis) {
		std::set<SpkiRec> listed;
		{
			spki_record *res = nullptr;
			unsigned n = 0;
			std::array<uint8_t, SKI_SIZE> k = ski;
			R.fail_before = simalloc_failures();
			int rc = spki_table_search_by_ski(&R.tbl, k.data(), &res, &n);
			if (rc != SPKI_SUCCESS) {
				if (!injected_since(R))
					R.ctx.viol("C10", "search-rc", "C10:rc:search_by_ski", "search_by_ski returned %d", rc);
				else
					R.ctx.count("alloc_fail_in_lookup");
				continue;
			}
			std::multiset<SpkiRec> got;
			for (unsigned i = 0; i < n; i++)
				got.insert(from_spki_record(&res[i], R.sm));
			if (res)
				lrtr_free(res);
			std::set<SpkiRec> want = R.model.by_ski(ski);
			std::multiset<SpkiRec> wantm(want.begin(), want.end());
			if (got != wantm)
				R.ctx.viol("C10", "search-by-ski", "C10:lookup:search_by_ski", "after %s: search_by_ski returns %zu entries, model has %zu",
					   after, got.size(), want.size());
			listed.insert(got.begin(), got.end());
		}
		for (uint32_t asn : asns) {
			spki_record *res = nullptr;
			unsigned n = 0;
			std::array<uint8_t, SKI_SIZE> k = ski;
			R.fail_before = simalloc_failures();
			int rc = spki_table_get_all(&R.tbl, asn, k.data(), &res, &n);
			R.ctx.count("queries");
			if (rc != SPKI_SUCCESS) {
				if (!injected_since(R))
					R.ctx.viol("C10", "get-all-rc", "C10:rc:get_all", "get_all returned %d", rc);
				else
					R.ctx.count("alloc_fail_in_lookup");
				continue;
			}
			std::multiset<SpkiRec> got;
			for (unsigned i = 0; i < n; i++)
				got.insert(from_spki_record(&res[i], R.sm));
			if (res)
				lrtr_free(res);
			std::set<SpkiRec> want = R.model.get_all(asn, ski);
			std::multiset<SpkiRec> wantm(want.begin(), want.end());
			if (got != wantm)
				R.ctx.viol("C10", "get-all", "C10:lookup:get_all", "after %s: get_all(AS%u) returns %zu entries, model has %zu", after, asn,
					   got.size(), want.size());
		}
	}
}

void check_mirror(SpkiRun &R, const char *after)
{
	if (R.mirror != R.model.recs) {
		std::string d;
		for (auto &r : R.model.recs)
			if (!R.mirror.count(r)) {
				d = "missing add for " + r.str();
				break;
			}
		if (d.empty())
			for (auto &r : R.mirror)
				if (!R.model.recs.count(r)) {
					d = "missing remove for " + r.str();
					break;
				}
		R.ctx.viol("C10", "mirror-diverged", std::string("C10:mirror:after-") + after, "after %s: callback log differs from table: %s", after,
			   d.c_str());
		R.mirror = R.model.recs;
	}
}

void apply_op(SpkiRun &R, const J &op, size_t idx)
{
	const std::string kind = op.gets("op");
	R.fail_before = simalloc_failures();
	if (kind == "add" || kind == "rm") {
		SpkiRec r = rec_from(op["r"]);
		spki_record sr;
		to_spki_record(r, R.sm, &sr);
		bool present = R.model.recs.count(r) > 0;
		int rc = kind == "add" ? spki_table_add_entry(&R.tbl, &sr) : spki_table_remove_entry(&R.tbl, &sr);
		int want = kind == "add" ? (present ? SPKI_DUPLICATE_RECORD : SPKI_SUCCESS) : (present ? SPKI_SUCCESS : SPKI_RECORD_NOT_FOUND);
		R.ctx.count(kind == "add" ? (present ? "op_add_dup" : "op_add") : (present ? "op_rm" : "op_rm_absent"));
		if (rc == SPKI_ERROR && injected_since(R)) {
			R.ctx.count("alloc_fail_in_op");
		} else if (rc != want) {
			R.ctx.viol("C10", "rc-" + kind, "C10:rc:" + kind, "op %zu %s %s: returned %d, expected %d", idx, kind.c_str(), r.str().c_str(), rc, want);
			if (rc == SPKI_SUCCESS) {
				if (kind == "add")
					R.model.add(r);
				else
					R.model.remove(r);
			}
		} else if (rc == SPKI_SUCCESS) {
			if (kind == "add")
				R.model.add(r);
			else
				R.model.remove(r);
		}
		check_mirror(R, kind.c_str());
	} else if (kind == "srcrm") {
		int s = (int)((unsigned)op.geti("src") % 3u);
		int rc = spki_table_src_remove(&R.tbl, R.sm.ptr[(size_t)s]);
		R.ctx.count("op_srcrm");
		if (rc != SPKI_SUCCESS)
			R.ctx.viol("C10", "rc-srcrm", "C10:rc:srcrm", "op %zu src_remove(%d) returned %d", idx, s, rc);
		else {
			size_t n = R.model.src_remove(s);
			if (n)
				R.ctx.count("probe_srcrm_nonempty");
		}
		check_mirror(R, "srcrm");
	} else if (kind == "reload") {
		int s = (int)((unsigned)op.geti("src") % 3u);
		R.ctx.count("op_reload");
		spki_table *sh = (spki_table *)lrtr_malloc(sizeof(spki_table));
		if (!sh) {
			R.ctx.count("alloc_fail_in_op");
			return;
		}
		spki_table_init(sh, NULL);
		bool ok = spki_table_copy_except_socket(&R.tbl, sh, (rtr_socket *)R.sm.ptr[(size_t)s]) == SPKI_SUCCESS;
		std::set<SpkiRec> fresh;
		const J &recs = op["new"];
		for (size_t k = 0; ok && k < recs.size(); k++) {
			SpkiRec r = rec_from(recs[k]);
			r.src = s;
			spki_record sr;
			to_spki_record(r, R.sm, &sr);
			int rc = spki_table_add_entry(sh, &sr);
			if (rc == SPKI_SUCCESS)
				fresh.insert(r);
			else if (rc == SPKI_ERROR)
				ok = false;
		}
		if (!ok && !injected_since(R))
			R.ctx.viol("C10", "reload-build", "C10:reload:build-failed", "building the shadow table failed without allocation failure");
		if (ok) {
			spki_table_swap(&R.tbl, sh);
			spki_table_notify_diff(&R.tbl, sh, R.sm.ptr[(size_t)s]);
			R.model.src_remove(s);
			for (auto &r : fresh)
				R.model.add(r);
		}
		spki_table_free_without_notify(sh);
		lrtr_free(sh);
		check_mirror(R, ok ? "reload" : "reload-failed");
	}
}

void run_spki(const J &plan, RunCtx &ctx)
{
	SpkiRun R(plan, ctx);
	g_run = &R;
	memset(R.fake, 0, sizeof(R.fake));
	for (int i = 0; i < 3; i++)
		R.sm.ptr.push_back(&R.fake[i]);
	const J &as = plan["asns"];
	for (size_t i = 0; i < as.size(); i++)
		R.asns.push_back((uint32_t)as[i].num());
	R.nski = (int)plan.geti("nski", 5);
	uint64_t fail_at = (uint64_t)plan.geti("alloc_fail_at", 0);
	if (fail_at) {
		simalloc_fail_at(fail_at);
		ctx.prop_override = "C18";
	}
	spki_table_init(&R.tbl, spki_cb);
	const J &ops = plan["ops"];
	unsigned qevery = (unsigned)plan.geti("query_every", 1);
	size_t maxn = 0;
	int rev[2] = {0, 0};
	J per_op = J::arr();
	for (size_t i = 0; i < ops.size(); i++) {
		uint64_t c0 = simalloc_calls();
		if (ops[i].gets("op") == "failnext") {
			simalloc_fail_at(simalloc_calls() + (uint64_t)ops[i].geti("k", 1));
			ctx.prop_override = "C18";
			per_op.push(0);
			continue;
		}
		apply_op(R, ops[i], i);
		if (R.model.recs.size() > maxn)
			maxn = R.model.recs.size();
		{
			// resize reversal (sizes only, no knowledge of the hash table's state): above a growth threshold, then inside the
			// band in which a shrink is under way but cannot have finished, then above the growth threshold again
			size_t n = R.model.recs.size();
			for (int lv = 0; lv < 2; lv++) {
				size_t grow = lv ? 64 : 32, lo = lv ? 17 : 9, hi = lv ? 31 : 15;
				int &st = rev[lv];
				if (st == 0 && n > grow && (lv || maxn <= 64))
					st = 1;
				else if (st == 1 && n >= lo && n <= hi)
					st = 2;
				else if (st == 2 && n < lo)
					st = 0;
				else if (st == 2 && n > 2 * grow)
					st = 3;
			}
		}
		if (qevery && (i % qevery) == qevery - 1)
			check_lookups(R, ops[i].gets("op").c_str());
		per_op.push((long long)(simalloc_calls() - c0));
	}
	ctx.extra["alloc_per_op"] = per_op;
	check_lookups(R, "end");
	if (maxn > 32)
		ctx.count("probe_hash_grow");
	if (maxn > 64)
		ctx.count("probe_hash_grow2");
	if (maxn > 32 && R.model.recs.size() < 8)
		ctx.count("probe_hash_shrink");
	if (rev[0] == 3)
		ctx.count("probe_hash_regrow_during_shrink");
	if (rev[1] == 3)
		ctx.count("probe_hash_regrow_during_shrink2");
	simalloc_fail_off();
	ctx.counters["alloc_calls"] = simalloc_calls();
	ctx.counters["alloc_failures"] = simalloc_failures();
	ctx.nontrivial = ops.size() >= 10 && ctx.counters["queries"] > 0;
	spki_table_free(&R.tbl);
	g_run = nullptr;
}

J gen_spki(uint64_t seed, const J &opts)
{
	Rng g(seed_label(seed, "gen-spki"));
	J plan = J::obj();
	plan["scn"] = "spki";
	plan["seed"] = (long long)(seed & 0x3fffffffffffffffull);
	plan["sim"] = gen_sim_part(g, seed, false, 0);
	int maxops = (int)opts.geti("maxops", 300);
	// AS numbers: a colliding family (same low hash bits) plus unrelated ones
	std::vector<uint32_t> asns;
	uint32_t a0 = (uint32_t)g.below(70000) + 1;
	asns.push_back(a0);
	unsigned bits = (unsigned)g.range(6, 10);
	uint32_t mask = (1u << bits) - 1;
	uint32_t target = tommy_inthash_u32(a0) & mask;
	for (uint32_t c = a0 + 1; asns.size() < 4 && c < a0 + 4000000; c++)
		if ((tommy_inthash_u32(c) & mask) == target)
			asns.push_back(c);
	asns.push_back(0);
	asns.push_back(4200000000u);
	asns.push_back((uint32_t)g.below(1000) + 100000);
	int nski = (int)g.range(2, 6);
	int nspki = (int)g.range(2, 40);
	J ja = J::arr();
	for (auto a : asns)
		ja.push(a);
	plan["asns"] = ja;
	plan["nski"] = nski;
	// phase structure: target sizes to walk to
	static const int targets[] = {0, 3, 9, 20, 33, 40, 66, 70, 130, 140, 200};
	SpkiModel shadow;
	J ops = J::arr();
	int nops = 0;
	int nphases = (int)g.range(1, 6);
	// per run: how often whole sources are dropped / reloaded (they undo a long walk towards a size), and whether the sizes
	// follow a resize reversal: grow past a threshold, drain until the table is part-way through shrinking, refill past the
	// growth threshold again (and the same one level up)
	unsigned churn = (unsigned)g.pick(std::vector<long long>{0, 1, 3, 10});
	std::vector<int> forced;
	if (!opts.geti("small", 0) && g.chance(350)) {
		churn = g.chance(700) ? 0 : 1;
		if (g.chance(600))
			forced = {(int)g.pick(std::vector<long long>{33, 40, 60}), (int)g.range(9, 15), (int)g.pick(std::vector<long long>{66, 70})};
		else
			forced = {(int)g.pick(std::vector<long long>{66, 70, 100}), (int)g.range(17, 31), (int)g.pick(std::vector<long long>{130, 140})};
		if (g.chance(300))
			forced.push_back((int)g.pick(std::vector<long long>{0, 3, 12, 20}));
		nphases = (int)forced.size();
	}
	auto draw = [&]() { return SpkiRec::make(asns[g.below(asns.size())], (int)g.below((uint64_t)nski), (int)g.below((uint64_t)nspki), (int)g.below(3)); };
	auto jrec = [&](uint32_t asn, int ski, int spki, int src) {
		J r = J::arr();
		r.push(asn);
		r.push(ski);
		r.push(spki);
		r.push(src);
		return r;
	};
	// keep ids alongside records to serialise them again
	std::map<SpkiRec, std::array<int, 2>> ids;
	for (int ph = 0; ph < nphases && nops < maxops; ph++) {
		int target = forced.empty() ? targets[g.below(opts.geti("small", 0) ? 6 : 11)] : forced[(size_t)ph];
		int guard = 0;
		while ((int)shadow.recs.size() != target && nops < maxops && guard++ < 1000) {
			bool up = (int)shadow.recs.size() < target;
			unsigned k = (unsigned)g.below(100);
			J op = J::obj();
			if (k < 6 && g.below(10) < churn) {
				int s = (int)g.below(3);
				op["op"] = "srcrm";
				op["src"] = s;
				shadow.src_remove(s);
			} else if (k >= 6 && k < 10 && g.below(10) < churn) {
				int s = (int)g.below(3);
				op["op"] = "reload";
				op["src"] = s;
				auto old = shadow.of_src(s);
				shadow.src_remove(s);
				J recs = J::arr();
				int n = (int)g.range(0, 12);
				for (int q = 0; q < n; q++) {
					uint32_t asn = asns[g.below(asns.size())];
					int ski = (int)g.below((uint64_t)nski), spki = (int)g.below((uint64_t)nspki);
					if (!old.empty() && g.chance(500)) {
						auto it = old.begin();
						std::advance(it, (long)g.below(old.size()));
						asn = it->asn;
						ski = ids[*it][0];
						spki = ids[*it][1];
					}
					SpkiRec r = SpkiRec::make(asn, ski, spki, s);
					ids[r] = {ski, spki};
					recs.push(jrec(asn, ski, spki, s));
					shadow.add(r);
				}
				op["new"] = recs;
			} else if ((up && k < 80) || (!up && k < 25) || shadow.recs.empty()) {
				uint32_t asn = asns[g.below(asns.size())];
				int ski = (int)g.below((uint64_t)nski), spki = (int)g.below((uint64_t)nspki), src = (int)g.below(3);
				SpkiRec r = SpkiRec::make(asn, ski, spki, src);
				if (!shadow.recs.empty() && g.chance(120)) { // duplicate add
					auto it = shadow.recs.begin();
					std::advance(it, (long)g.below(shadow.recs.size()));
					r = *it;
					asn = r.asn;
					ski = ids[r][0];
					spki = ids[r][1];
					src = r.src;
				}
				ids[r] = {ski, spki};
				op["op"] = "add";
				op["r"] = jrec(asn, ski, spki, src);
				shadow.add(r);
			} else {
				auto it = shadow.recs.begin();
				std::advance(it, (long)g.below(shadow.recs.size()));
				SpkiRec r = *it;
				int ski = ids[r][0], spki = ids[r][1];
				int src = r.src;
				if (g.chance(120)) // absent variant
					src = (src + 1) % 3;
				op["op"] = "rm";
				op["r"] = jrec(r.asn, ski, spki, src);
				shadow.remove(SpkiRec::make(r.asn, ski, spki, src));
			}
			ops.push(op);
			nops++;
		}
	}
	(void)draw;
	plan["ops"] = ops;
	plan["query_every"] = (int)g.range(1, 8);
	return plan;
}

} // namespace

extern const Scenario scn_spki = {"spki", gen_spki, run_spki};
