// RTR wire format (RFC 6810 / RFC 8210) written independently of the library: PDU builders for the
// simulated cache and a parser for everything the client sends.
#pragma once
#include "models.hpp"

#include <string>
#include <vector>

typedef std::vector<uint8_t> Bytes;

enum PduType {
	PDU_SERIAL_NOTIFY = 0,
	PDU_SERIAL_QUERY = 1,
	PDU_RESET_QUERY = 2,
	PDU_CACHE_RESPONSE = 3,
	PDU_IPV4 = 4,
	PDU_IPV6 = 6,
	PDU_EOD = 7,
	PDU_CACHE_RESET = 8,
	PDU_ROUTER_KEY = 9,
	PDU_ERROR = 10
};

static const uint32_t RTR_MAX_PDU = 3248;

inline void put8(Bytes &b, uint8_t v) { b.push_back(v); }
inline void put16(Bytes &b, uint16_t v)
{
	b.push_back((uint8_t)(v >> 8));
	b.push_back((uint8_t)v);
}
inline void put32(Bytes &b, uint32_t v)
{
	b.push_back((uint8_t)(v >> 24));
	b.push_back((uint8_t)(v >> 16));
	b.push_back((uint8_t)(v >> 8));
	b.push_back((uint8_t)v);
}
inline uint16_t get16(const uint8_t *p) { return (uint16_t)((p[0] << 8) | p[1]); }
inline uint32_t get32(const uint8_t *p) { return ((uint32_t)p[0] << 24) | ((uint32_t)p[1] << 16) | ((uint32_t)p[2] << 8) | p[3]; }
inline void set32(Bytes &b, size_t off, uint32_t v)
{
	b[off] = (uint8_t)(v >> 24);
	b[off + 1] = (uint8_t)(v >> 16);
	b[off + 2] = (uint8_t)(v >> 8);
	b[off + 3] = (uint8_t)v;
}
inline void set16(Bytes &b, size_t off, uint16_t v)
{
	b[off] = (uint8_t)(v >> 8);
	b[off + 1] = (uint8_t)v;
}

inline Bytes hdr(uint8_t ver, uint8_t type, uint16_t mid, uint32_t len)
{
	Bytes b;
	put8(b, ver);
	put8(b, type);
	put16(b, mid);
	put32(b, len);
	return b;
}

inline Bytes pdu_cache_response(uint8_t ver, uint16_t session) { return hdr(ver, PDU_CACHE_RESPONSE, session, 8); }
inline Bytes pdu_cache_reset(uint8_t ver) { return hdr(ver, PDU_CACHE_RESET, 0, 8); }
inline Bytes pdu_serial_notify(uint8_t ver, uint16_t session, uint32_t serial)
{
	Bytes b = hdr(ver, PDU_SERIAL_NOTIFY, session, 12);
	put32(b, serial);
	return b;
}
inline Bytes pdu_prefix(uint8_t ver, const PfxRec &r, uint8_t flags)
{
	if (r.fam == 4) {
		Bytes b = hdr(ver, PDU_IPV4, 0, 20);
		put8(b, flags);
		put8(b, (uint8_t)r.len);
		put8(b, (uint8_t)r.maxlen);
		put8(b, 0);
		put32(b, (uint32_t)(r.addr >> 96));
		put32(b, r.asn);
		return b;
	}
	Bytes b = hdr(ver, PDU_IPV6, 0, 32);
	put8(b, flags);
	put8(b, (uint8_t)r.len);
	put8(b, (uint8_t)r.maxlen);
	put8(b, 0);
	for (int k = 0; k < 4; k++)
		put32(b, (uint32_t)(r.addr >> (96 - 32 * k)));
	put32(b, r.asn);
	return b;
}
inline Bytes pdu_router_key(uint8_t ver, const SpkiRec &r, uint8_t flags)
{
	Bytes b;
	put8(b, ver);
	put8(b, PDU_ROUTER_KEY);
	put8(b, flags);
	put8(b, 0);
	put32(b, 8 + SKI_SIZE + 4 + SPKI_SIZE);
	b.insert(b.end(), r.ski.begin(), r.ski.end());
	put32(b, r.asn);
	b.insert(b.end(), r.spki.begin(), r.spki.end());
	return b;
}
inline Bytes pdu_eod(uint8_t ver, uint16_t session, uint32_t serial, uint32_t refresh, uint32_t retry, uint32_t expire)
{
	if (ver == 0) {
		Bytes b = hdr(0, PDU_EOD, session, 12);
		put32(b, serial);
		return b;
	}
	Bytes b = hdr(ver, PDU_EOD, session, 24);
	put32(b, serial);
	put32(b, refresh);
	put32(b, retry);
	put32(b, expire);
	return b;
}
inline Bytes pdu_error(uint8_t ver, uint16_t code, const Bytes &enc, const std::string &text)
{
	Bytes b = hdr(ver, PDU_ERROR, code, (uint32_t)(16 + enc.size() + text.size()));
	put32(b, (uint32_t)enc.size());
	b.insert(b.end(), enc.begin(), enc.end());
	put32(b, (uint32_t)text.size());
	b.insert(b.end(), text.begin(), text.end());
	return b;
}

// exact size the RFCs prescribe for a PDU of this type and version; 0 = variable (Error Report), -1 = unknown type
inline int rfc_pdu_size(uint8_t type, uint8_t ver)
{
	switch (type) {
	case PDU_SERIAL_NOTIFY: return 12;
	case PDU_SERIAL_QUERY: return 12;
	case PDU_RESET_QUERY: return 8;
	case PDU_CACHE_RESPONSE: return 8;
	case PDU_IPV4: return 20;
	case PDU_IPV6: return 32;
	case PDU_EOD: return ver == 0 ? 12 : 24;
	case PDU_CACHE_RESET: return 8;
	case PDU_ROUTER_KEY: return 8 + SKI_SIZE + 4 + SPKI_SIZE;
	case PDU_ERROR: return 0;
	default: return -1;
	}
}

inline std::string hexstr(const uint8_t *p, size_t n, size_t limit = 48)
{
	std::string s;
	char b[4];
	for (size_t i = 0; i < n && i < limit; i++) {
		snprintf(b, sizeof(b), "%02x", p[i]);
		s += b;
	}
	if (n > limit)
		s += "..";
	return s;
}
inline Bytes unhex(const std::string &s)
{
	Bytes b;
	for (size_t i = 0; i + 1 < s.size(); i += 2)
		b.push_back((uint8_t)strtoul(s.substr(i, 2).c_str(), nullptr, 16));
	return b;
}
