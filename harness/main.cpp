// Worker process: reads one JSON command per line on stdin, runs simulated executions in-process,
// prints one JSON result per line on stdout (flushed). The python driver (/verif/check) supervises.
#include "common.hpp"
#include "scenario.hpp"

#include <sched.h>
#include <unistd.h>

#include <iostream>
#include <string>

RunCtx *g_ctx;
void tsan_collect(RunCtx &ctx);

extern const Scenario scn_pfx;
extern const Scenario scn_spki;
extern const Scenario scn_conc;
extern const Scenario scn_world;

static const Scenario *const ALL[] = {&scn_pfx,
#ifdef HAVE_SCN_SPKI
				      &scn_spki,
#endif
#ifdef HAVE_SCN_CONC
				      &scn_conc,
#endif
#ifdef HAVE_SCN_WORLD
				      &scn_world,
#endif
				      nullptr};

const Scenario *find_scenario(const std::string &name)
{
	for (int i = 0; ALL[i]; i++)
		if (name == ALL[i]->name)
			return ALL[i];
	return nullptr;
}

sim_cfg sim_cfg_from_plan(const J &plan)
{
	const J &s = plan["sim"];
	sim_cfg c;
	memset(&c, 0, sizeof(c));
	c.sched_seed = s["sched_seed"].u64(1);
	c.boot_ns = s["boot_s"].u64(0) * SIM_NS + s["boot_frac_ns"].u64(0) % SIM_NS;
	c.switch_permille = (unsigned)s.geti("switch_permille", 300);
	c.preempt_mean = (unsigned)s.geti("preempt_mean", 0);
	c.max_steps = s["max_steps"].u64(3000000);
	c.max_sim_ns = c.boot_ns + s["max_sim_s"].u64(400ull * 86400ull) * SIM_NS;
	c.stack_fill = (unsigned char)plan.geti("fill", 0xA5);
	return c;
}

J gen_sim_part(Rng &g, uint64_t seed, bool preempt, unsigned switch_hint)
{
	J s = J::obj();
	s["sched_seed"] = (long long)(seed_label(seed, "sched") & 0x3fffffffffffffffull);
	static const uint64_t boots[] = {0, 1, 1000000, 2147483548ull, 4294967196ull};
	s["boot_s"] = (long long)boots[g.below(5)];
	s["boot_frac_ns"] = (long long)(g.chance(200) ? 0 : g.below(SIM_NS));
	static const unsigned sw[] = {1000, 500, 200, 50};
	s["switch_permille"] = switch_hint ? switch_hint : sw[g.below(4)];
	if (preempt) {
		static const unsigned pm[] = {0, 5, 20, 60, 200, 1000, 5000};
		s["preempt_mean"] = pm[g.below(7)];
	} else
		s["preempt_mean"] = 0;
	return s;
}

struct RunArg {
	const Scenario *scn;
	const J *plan;
	RunCtx *ctx;
};

static void *task0(void *p)
{
	RunArg *a = (RunArg *)p;
	a->scn->run(*a->plan, *a->ctx);
	return nullptr;
}

static std::string g_current_id;
// set by a scenario once all its oracles have been evaluated and only teardown remains: hitting a step or
// simulated-time limit there (e.g. rtr_stop joining a thread that sleeps an accepted 10-year retry interval while
// another socket keeps polling) truncates the run and says nothing about a property
bool g_teardown_only = false;

static void on_fatal(enum sim_fatal_kind kind, const char *msg)
{
	static const char *nm[] = {"none", "deadlock", "steps", "busyloop", "simtime", "internal"};
	J r = J::obj();
	r["id"] = g_current_id;
	r["fatal"] = nm[kind];
	if (g_teardown_only && (kind == SIM_F_STEPS || kind == SIM_F_SIMTIME))
		r["benign"] = true;
	r["msg"] = msg;
	r["t_ns"] = (long long)sim_now_ns();
	r["steps"] = (long long)sim_steps();
	if (g_ctx) {
		J v = J::arr();
		for (auto &x : g_ctx->viols) {
			J o = J::obj();
			o["prop"] = x.prop;
			o["cls"] = x.cls;
			o["sig"] = x.sig;
			o["msg"] = x.msg;
			v.push(o);
		}
		r["viol"] = v;
		J n = J::arr();
		size_t from = g_ctx->notes.size() > 80 ? g_ctx->notes.size() - 80 : 0;
		for (size_t i = from; i < g_ctx->notes.size(); i++)
			n.push(g_ctx->notes[i]);
		r["notes"] = n;
	}
	std::string s = r.dump();
	printf("%s\n", s.c_str());
	fflush(stdout);
}

static J execute(const Scenario *scn, const J &plan, bool trace, const std::string &id)
{
	RunCtx ctx;
	g_ctx = &ctx;
	g_teardown_only = false;
	simalloc_reset((uint8_t)plan.geti("fill", 0xA5));
	sim_cfg cfg = sim_cfg_from_plan(plan);
	cfg.trace = trace;
	RunArg a{scn, &plan, &ctx};
	sim_run(&cfg, task0, &a);
	tsan_collect(ctx);
	// allocator ledger (C18, failure-free clause)
	bool failure_free = simalloc_failures() == 0;
	if (simalloc_libc_free_of_sim_block())
		ctx.viol("C18", "libc-free", "C18:allocator:libc-free-of-configured-block",
			 "%llu block(s) of the configured allocator were released with libc free()",
			 (unsigned long long)simalloc_libc_free_of_sim_block());
	if (simalloc_foreign_free())
		ctx.viol("C18", "foreign-free", "C18:allocator:foreign-pointer-to-configured-free",
			 "%llu pointer(s) not obtained from the configured allocator were passed to its free/realloc",
			 (unsigned long long)simalloc_foreign_free());
	if (failure_free && simalloc_live_blocks())
		ctx.viol("C18", "leak", "C18:leak:" + std::string(scn->name), "%llu block(s), %llu bytes still allocated after everything was freed",
			 (unsigned long long)simalloc_live_blocks(), (unsigned long long)simalloc_live_bytes());
	ctx.counters["alloc_total_blocks"] = simalloc_total_blocks();
	simalloc_release_all();
	const sim_stats *st = sim_get_stats();
	J r = J::obj();
	r["id"] = id;
	r["scn"] = scn->name;
	r["seed"] = plan["seed"];
	r["hash"] = hex64(sim_log_hash());
	r["sched_hash"] = hex64(sim_sched_hash());
	r["steps"] = (long long)st->steps;
	r["switches"] = (long long)st->switches;
	r["preemptions"] = (long long)st->preemptions;
	r["cancels"] = (long long)st->cancels_delivered;
	r["tasks"] = (long long)st->tasks_spawned;
	r["sim_ms"] = (long long)(st->sim_ns_elapsed / 1000000ull);
	r["events"] = (long long)sim_log_count();
	r["nontrivial"] = ctx.nontrivial;
	r["cov_hit"] = (long long)sim_cov_hit();
	r["cov_total"] = (long long)sim_cov_total();
	J v = J::arr();
	for (auto &x : ctx.viols) {
		J o = J::obj();
		o["prop"] = x.prop;
		o["cls"] = x.cls;
		o["sig"] = x.sig;
		o["msg"] = x.msg;
		o["step"] = (long long)x.step;
		o["t_ms"] = (long long)(x.t_ns / 1000000ull);
		v.push(o);
	}
	r["viol"] = v;
	J c = J::obj();
	for (auto &kv : ctx.counters)
		c[kv.first] = (long long)kv.second;
	r["counters"] = c;
	for (auto &kv : ctx.extra.o)
		r[kv.first] = kv.second;
	if (!ctx.notes.empty()) {
		J n = J::arr();
		for (auto &s : ctx.notes)
			n.push(s);
		r["notes"] = n;
	}
	if (trace) {
		size_t n;
		const sim_event *ev = sim_trace(&n);
		J t = J::arr();
		for (size_t i = 0; i < n; i++) {
			J e = J::arr();
			e.push((long long)ev[i].t_ns);
			e.push((int)ev[i].task);
			e.push((int)ev[i].type);
			e.push((long long)ev[i].a);
			e.push((long long)ev[i].b);
			t.push(e);
		}
		r["trace"] = t;
	}
	g_ctx = nullptr;
	return r;
}

// __asan_default_options must be a real exported symbol
extern "C" __attribute__((used, visibility("default"))) const char *__asan_default_options()
{
	return "exitcode=77:detect_leaks=0:detect_stack_use_after_return=0:allocator_may_return_null=1";
}
extern "C" __attribute__((used, visibility("default"))) const char *__ubsan_default_options()
{
	return "halt_on_error=1:exitcode=77:print_stacktrace=1";
}
extern "C" __attribute__((used, visibility("default"))) const char *__tsan_default_options()
{
	return "exitcode=0:halt_on_error=0:report_signal_unsafe=0:report_thread_leaks=0:ignore_interceptors_accesses=1:suppress_equal_stacks=0:suppress_equal_addresses=0:external_symbolizer_path=/usr/bin/llvm-symbolizer-14";
}

int main(int argc, char **argv)
{
	int core = -1;
	for (int i = 1; i < argc; i++)
		if (!strcmp(argv[i], "--core") && i + 1 < argc)
			core = atoi(argv[++i]);
	if (core >= 0) {
		cpu_set_t set;
		CPU_ZERO(&set);
		CPU_SET((unsigned)core, &set);
		sched_setaffinity(0, sizeof(set), &set);
	}
	simalloc_install();
	sim_set_fatal_handler(on_fatal);
	std::string line;
	while (std::getline(std::cin, line)) {
		if (line.empty())
			continue;
		J cmd;
		try {
			cmd = J::parse(line);
		} catch (std::exception &e) {
			printf("{\"error\":\"bad command\"}\n");
			fflush(stdout);
			continue;
		}
		std::string c = cmd.gets("cmd");
		std::string id = cmd.gets("id");
		g_current_id = id;
		if (c == "quit")
			break;
		if (c == "gen" || c == "run") {
			const Scenario *scn = find_scenario(cmd.gets("scn"));
			if (!scn) {
				printf("{\"id\":\"%s\",\"error\":\"unknown scenario\"}\n", id.c_str());
				fflush(stdout);
				continue;
			}
			uint64_t seed = cmd["seed"].u64();
			J plan = scn->gen(seed, cmd["opts"]);
			// overrides applied on top of the generated plan (e.g. alloc_fail_at sweeps)
			const J &ov = cmd["override"];
			for (auto &kv : ov.o)
				plan[kv.first] = kv.second;
			if (c == "gen") {
				J r = J::obj();
				r["id"] = id;
				r["plan"] = plan;
				std::string s = r.dump();
				printf("%s\n", s.c_str());
				fflush(stdout);
				continue;
			}
			printf("{\"start\":\"%s\"}\n", id.c_str());
			fflush(stdout);
			J r = execute(scn, plan, cmd["trace"].b(), id);
			if (cmd["emit_plan"].b() || r["viol"].size())
				r["plan"] = plan;
			std::string s = r.dump();
			printf("%s\n", s.c_str());
			fflush(stdout);
		} else if (c == "runplan") {
			const J &plan = cmd["plan"];
			const Scenario *scn = find_scenario(plan.gets("scn"));
			if (!scn) {
				printf("{\"id\":\"%s\",\"error\":\"unknown scenario\"}\n", id.c_str());
				fflush(stdout);
				continue;
			}
			printf("{\"start\":\"%s\"}\n", id.c_str());
			fflush(stdout);
			J r = execute(scn, plan, cmd["trace"].b(), id);
			std::string s = r.dump();
			printf("%s\n", s.c_str());
			fflush(stdout);
		} else {
			printf("{\"id\":\"%s\",\"error\":\"unknown cmd\"}\n", id.c_str());
			fflush(stdout);
		}
	}
	return 0;
}
