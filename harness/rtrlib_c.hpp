// The rtrlib headers the harness uses (public API plus the table-internal API named in the
// properties' anchors). rtr_private.h / packets_private.h are C99-only and are not included.
#pragma once
extern "C" {
#include "rtrlib/lib/alloc_utils.h"
#include "rtrlib/lib/ip.h"
#include "rtrlib/pfx/pfx.h"
#include "rtrlib/pfx/pfx_private.h"
#include "rtrlib/rtr/rtr.h"
#include "rtrlib/rtr_mgr.h"
#include "rtrlib/spki/hashtable/ht-spkitable_private.h"
#include "rtrlib/transport/transport.h"
}
