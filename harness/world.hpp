// Whole-system simulation: manager + sockets (real library threads) against simulated caches over a
// simulated transport, with wire/session/table oracles. DESIGN §4, §7, §8.
#pragma once
#include <map>
#include "models.hpp"
#include "scenario.hpp"
#include "wire.hpp"

#include <deque>
#include <functional>

struct Seg {
	uint64_t t; // delivery time
	Bytes data;
	size_t pos = 0;
	int hold = 0; // > 0: held back by the network until rendezvous `hold` is released (or until t)
};

struct SentPdu {
	size_t off; // offset in the connection's cache->client stream
	size_t len;
	int xid; // exchange id, -1 unsolicited
};

// what the client is entitled to believe (updated from observable events only)
struct Belief {
	bool has_session = false;
	uint16_t session = 0;
	uint32_t serial = 0;
	int version = 1; // negotiated protocol version
	bool maybe_reset = false; // inside the +-2 s expiry band: Reset or Serial both acceptable
	bool has_success = false;
	uint64_t last_success_ns = 0;
	uint32_t refresh = 0, retry = 0, expire = 0; // interval fields the socket must hold
};

enum WalkKind { WK_OK, WK_FAIL, WK_CACHE_RESET, WK_ERR_PDU, WK_INCOMPLETE };

struct Walk {
	WalkKind kind = WK_INCOMPLETE;
	std::string why; // framing | version | unktype | unexpected | sess-cr | sess-eod | dup | unk | flags | closed | silent
	bool either = false; // contains values the properties do not classify: outcome-conditional
	bool domain_ok = true; // every payload record lies inside the tables' domain
	size_t off = 0, olen = 0; // offending PDU (stream offset relative to exchange start, length as received)
	std::set<int> codes; // error codes acceptable for the report
	// payload violations are detected when the records are applied, and the statements leave the order between the three
	// record families open: the first violation of each family is an acceptable "offending PDU" (the primary one above is
	// the first in the order IPv4, IPv6, router keys)
	struct Alt {
		std::string why;
		size_t off, olen;
		std::set<int> codes;
	};
	std::vector<Alt> alts;
	bool need_report = false;
	bool downgraded = false; // first-PDU downgrade applies
	int version_after = 1;
	std::set<PfxRec> new_pfx;
	std::set<SpkiRec> new_spki;
	uint16_t session = 0;
	uint32_t serial = 0;
	bool has_iv = false;
	uint32_t iv[3] = {0, 0, 0}; // refresh, retry, expire as sent
	int err_code = -1, err_ver = -1;
	size_t consumed = 0; // bytes of the stream a correct client consumes
	unsigned n_payload = 0;
	size_t n_add = 0, n_del = 0;
};

struct Exchange {
	int id = 0;
	int si = 0;
	int gen = 0; // connection generation
	uint64_t t_query = 0;
	int qtype = 0; // 1 serial, 2 reset
	int qver = 0;
	uint16_t qsession = 0;
	uint32_t qserial = 0;
	size_t start_off = 0; // where its bytes start in the cache->client stream
	Bytes bytes; // everything queued for it
	bool closes = false; // cache hangs up after the bytes
	bool tail = false; // served by the clean tail (no scripted deviation)
	bool end_event_fired = false;
	bool scripted_faults = false;
	Belief at_query;
	std::set<PfxRec> base_pfx; // model of this source at query time
	std::set<SpkiRec> base_spki;
	size_t out_off_after_query = 0; // client->cache stream offset right after the query
	int faults_fired = 0;
	bool audited = false;
	int sync_calls = 0;
	uint64_t alloc_at_query = 0;
	unsigned recv_calls_used = 0;
	int script_index = -1;
	J plan;
};

struct Peer {
	int si = 0;
	// ---- connection
	bool open = false;
	int gen = 0;
	std::deque<Seg> inq;
	bool peer_closed = false; // cache closes after the queue drains
	Bytes in_stream; // bytes queued to the client on this connection (delivered or not)
	size_t consumed = 0; // bytes the client has read
	Bytes out_stream; // bytes the client sent on this connection
	size_t out_parsed = 0;
	int closed_event_gen = -1;
	bool closed_event_gen_fired = false;
	int dead_gen = -1; // connection on which every further write fails (sticky send fault)
	int frag_gen = -1; // connection on which a PDU was abandoned half-way after a failed write
	Bytes cur_pdu_full, frag_full;
	size_t frag_written = 0;
	bool frag_retry_watch = false;
	int cur_x = -1;
	unsigned recv_calls = 0, send_calls = 0; // within current exchange
	J faults; // transport faults of the current exchange
	bool any_pdu_received = false;
	bool hdr_seen = false; // the client has received at least one complete PDU header on this connection // by a correct client on this connection
	uint64_t opened_ns = 0;
	// ---- cache
	uint16_t session = 1;
	uint32_t serial = 0;
	int vmax = 1;
	bool nodata = false;
	std::set<PfxRec> data;
	std::set<SpkiRec> keys;
	std::map<uint32_t, std::pair<std::set<PfxRec>, std::set<SpkiRec>>> hist;
	uint32_t iv[3] = {3600, 600, 7200};
	J script, opens;
	size_t xi = 0, oi = 0;
	std::vector<J> pending; // scheduled data changes: {t_ns, edits}
	bool clean = false;
	uint64_t t_clean = 0;
	uint64_t down_until = 0; // unreachable: every open fails until then
	bool converged = false;
	bool tainted = false; // accepted a well-formed response that did not carry the cache's real state
	uint64_t t_converged = 0;
	std::vector<Exchange> xs;
	// ---- client side observation
	bool in_sync = false;
	size_t sync_enter_consumed = 0;
	int sync_faults_before = 0;
	uint64_t sync_allocfail_before = 0;
	bool stopping = false; // rtr_stop in progress or done; records may vanish
	bool started = false;
	int state_cb_last = -1;
	uint64_t cb_add = 0, cb_del = 0; // callbacks for this source since sync enter
	uint64_t open_count = 0, query_count = 0;
	bool expect_reset_after_open = false; // C07: expired at open
	bool open_since_query = false;
	bool in_wait = false;
	uint64_t wait_enter_ns = 0, wait_return_ns = 0;
	bool wait_returned_success = false;
	bool notify_consumed = false;
	bool notify_unanswered = false;
	bool hdr_seen_before_wait = false;
	bool stray_since_success = false;
	int stalled_gen = -1; // connection on which the cache stalled inside a PDU header
	bool may_downgrade = false;
	bool expect_immediate_open = false;
	uint64_t trigger_ns = 0;
	int pending_downgrade = 0; // C13: a licensed trigger was observed; next PDU sent must carry this version (+1 offset), 0 = none
	bool c03_pending = false; // after a listed failure with records kept: next query must equal at_query expectation
	Belief c03_expect;
};

struct GInfo { // C15: what the manager has reported about a group
	int pref = 0;
	std::vector<int> socks;
	int status = 0; // RTR_MGR_CLOSED
	bool removed = false;
	bool removing = false; // rtr_mgr_remove_group is at work on it (already unlinked, sockets being stopped one by one)
	int est_epoch = 0; // counts its transitions to ESTABLISHED
};

struct GPending { // C15: consequence that must be visible once the reporting socket thread moves on
	int kind; // 1: groups less preferred than `pref` closed ; 2: group `expect` started
	int task; // simulated task that made the report
	int sock;
	int pref;
	int expect;
	int expect2 = -1; // kind 2: alternative reading of "still closed" (see group_oracle_on_status)
	int epoch = 0; // kind 1: which establishment of the group this is the consequence of
};

struct Win6 { // C06: one full reload of a socket that already holds data
	int si;
	int xid = -1; // exchange it belongs to
	int call = 0; // which rtr_sync call on that exchange
	uint64_t start, end; // stamps
	bool done = false, success = false;
	std::set<PfxRec> oldp, newp, otherp;
	std::set<SpkiRec> olds, news, others;
	// further states of the other sockets' records, if one of them synchronised while this reload was running
	std::vector<std::pair<std::set<PfxRec>, std::set<SpkiRec>>> other_alt;
};

struct Read6 {
	int reader;
	uint64_t inv, ret;
	bool spki;
	PfxRec q; // route (asn, prefix, len)
	SpkiRec k; // (asn, ski)
	int state; // validation state
	std::set<SpkiRec> keys;
	int rc;
};

struct World {
	const J &plan;
	RunCtx &ctx;
	rtr_mgr_config *conf = nullptr;
	int n = 0; // sockets == caches
	std::vector<rtr_socket> socks;
	std::vector<tr_socket> trs;
	std::vector<Peer> peers;
	SrcMap sm;
	std::vector<Belief> belief;
	std::vector<std::set<PfxRec>> model_pfx;
	std::vector<std::set<SpkiRec>> model_spki;
	std::set<PfxRec> mirror_pfx;
	std::set<SpkiRec> mirror_spki;
	std::set<std::array<uint8_t, SKI_SIZE>> ski_universe;
	Rng chunk, lat;
	int chunk_mode = 0; // 0 all, 1 one byte, 2 random
	uint64_t lat_min_ns = 1000000, lat_jit_ns = 5000000;
	int iv_mode = 2;
	bool hostile = false; // C04 mode: contents oracle relaxed to the framing clause
	std::string focus; // property the plan was generated for
	int xid_next = 0;
	std::vector<GInfo> ginfo;
	std::vector<GPending> gpend;
	bool oper_busy = false;
	// event-triggered operator actions ("stop at this point"): the main task waits for the n-th event of a kind
	int main_task = 0;
	std::string trig_ev; // "" = none armed
	// rendezvous delays: bytes of peer `peer` wait until socket `sock` has read all but `before` bytes of its answer `xi`
	struct Hold {
		int id, peer, sock, xi;
		size_t before;
		bool released;
	};
	std::vector<Hold> holds;
	// C15: task -> preference of the group it reported ESTABLISHED and on whose behalf it is closing others right now
	std::map<int, int> acting_for;
	int trig_sock = -1;
	long trig_n = 0;
	bool trig_fired = false;
	void event(const char *ev, int si)
	{
		if (trig_ev.empty() || trig_fired || trig_ev != ev || (trig_sock >= 0 && trig_sock != si))
			return;
		if (--trig_n > 0)
			return;
		trig_fired = true;
		ctx.count(std::string("probe_oper_fired_at_") + ev);
		sim_wake(SIM_W_USER, this);
		sim_switch_to_task(main_task); // the operator acts right here, in the middle of whatever the socket thread is doing
	}
	// C06
	bool c06 = false;
	uint64_t stamp = 0;
	std::vector<Win6> wins;
	std::vector<Read6> reads6;
	int reload_active = -1; // index into wins
	bool readers_stop = false;
	int reader_cv = 0;
	unsigned reads_per_wake = 40; // an operator call (stop/add/remove group) is in progress
	// digests for metamorphic comparison
	uint64_t digest_until = UINT64_MAX;
	uint64_t max_queries = 0, total_queries = 0; // fixed-horizon runs also end after this many queries (same point in every variant)
	bool tables_cut = false;
	uint64_t dig_tables_cut = 0;
	uint64_t dig_states = 0xcbf29ce484222325ull, dig_sent = 0xcbf29ce484222325ull;
	World(const J &p, RunCtx &c) : plan(p), ctx(c), chunk(1), lat(1) {}
	int index_of(const rtr_socket *s) const { return sm.index(s); }
	bool debug = false;
	bool truncate = false;
	uint64_t soft_steps = 250000;
	void note(const char *fmt, ...) __attribute__((format(printf, 2, 3)))
	{
		if (!debug)
			return;
		if (ctx.notes.size() > 400000)
			ctx.notes.erase(ctx.notes.begin(), ctx.notes.begin() + 200000);
		char b[600];
		int o = snprintf(b, sizeof(b), "[t=%llu.%03llu task=%d] ", (unsigned long long)(sim_now_ns() / SIM_NS), (unsigned long long)(sim_now_ns() / 1000000 % 1000), sim_self());
		va_list ap;
		va_start(ap, fmt);
		vsnprintf(b + o, sizeof(b) - (size_t)o, fmt, ap);
		va_end(ap);
		ctx.notes.push_back(b);
	}
};

extern World *g_world;

// world_walk.cpp
Walk walk_exchange(const Exchange &x, bool first_pdu_of_conn);
// world_cache.cpp
void cache_init(World &W, Peer &p, const J &jc);
// called when the client has sent bytes; parses queries and queues answers
void cache_on_client_bytes(World &W, Peer &p);
void cache_on_connect(World &W, Peer &p);
void cache_enter_clean_if_due(World &W, Peer &p);
void cache_poll(World &W, Peer &p);
uint64_t cache_next_event(Peer &p);
// scn_world.cpp (oracle entry points used by the cache)
void oracle_on_query(World &W, Peer &p, Exchange &x);
void oracle_on_client_pdu(World &W, Peer &p, const uint8_t *pdu, size_t len);
