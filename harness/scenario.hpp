// Scenario registry: gen(seed, opts) -> plan ; run(plan, ctx) executes inside the simulator.
#pragma once
#include "common.hpp"

struct Scenario {
	const char *name;
	J (*gen)(uint64_t seed, const J &opts);
	// executed as task 0 of a simulated run
	void (*run)(const J &plan, RunCtx &ctx);
};

const Scenario *find_scenario(const std::string &name);

// sim_cfg from the "sim" object of a plan
sim_cfg sim_cfg_from_plan(const J &plan);
// draw the scheduling part of a plan
J gen_sim_part(Rng &g, uint64_t seed, bool preempt, unsigned switch_permille_hint);
