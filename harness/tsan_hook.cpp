// ThreadSanitizer as a deterministic happens-before race oracle on simulated schedules (DESIGN §3.3).
// In the TSan variant every report is captured here (no allocation inside the callback) and turned
// into a violation after the run if one of the racing accesses lies in table code.
#include "common.hpp"

#include <cstdint>

std::string g_race_prop = "C16";

#ifdef VARIANT_TSAN
extern "C" {
int __tsan_get_report_data(void *report, const char **description, int *count, int *stack_count, int *mop_count, int *loc_count,
			   int *mutex_count, int *thread_count, int *unique_tid_count, void **sleep_trace, unsigned long trace_size);
int __tsan_get_report_mop(void *report, unsigned long idx, int *tid, void **addr, int *size, int *write, int *atomic, void **trace,
			  unsigned long trace_size);
void __sanitizer_symbolize_pc(void *pc, const char *fmt, char *out_buf, unsigned long out_buf_size);
}

namespace {
constexpr int MAXREP = 32, MAXPC = 8;
struct Rep {
	char desc[32];
	int nmop;
	void *pcs[2][MAXPC];
	int write[2];
};
Rep reps[MAXREP];
int nrep = 0;
} // namespace

extern "C" void __tsan_on_report(void *report)
{
	if (nrep >= MAXREP)
		return;
	Rep &r = reps[nrep];
	memset(&r, 0, sizeof(r));
	const char *desc = nullptr;
	int count, sc, mc = 0, lc, muc, tc, utc;
	void *sleep[1];
	__tsan_get_report_data(report, &desc, &count, &sc, &mc, &lc, &muc, &tc, &utc, sleep, 1);
	if (desc) {
		strncpy(r.desc, desc, sizeof(r.desc) - 1);
	}
	r.nmop = mc > 2 ? 2 : mc;
	for (int i = 0; i < r.nmop; i++) {
		int tid, size, atomic;
		void *addr;
		__tsan_get_report_mop(report, (unsigned long)i, &tid, &addr, &size, &r.write[i], &atomic, r.pcs[i], MAXPC);
	}
	nrep++;
}

void tsan_collect(RunCtx &ctx)
{
	for (int i = 0; i < nrep; i++) {
		Rep &r = reps[i];
		bool table = false;
		std::string funcs[2];
		std::string detail;
		for (int m = 0; m < r.nmop; m++) {
			for (int k = 0; k < MAXPC && r.pcs[m][k]; k++) {
				char buf[512];
				buf[0] = 0;
				__sanitizer_symbolize_pc((void *)((uintptr_t)r.pcs[m][k] - (k ? 1 : 0)), "%f %s:%l", buf, sizeof(buf));
				std::string s = buf;
				bool lib = s.find("/rtrlib/") != std::string::npos || s.find("tommy") != std::string::npos;
				bool tbl = s.find("trie") != std::string::npos || s.find("spkitable") != std::string::npos ||
					   s.find("tommy") != std::string::npos;
				if (lib && funcs[m].empty())
					funcs[m] = s.substr(0, s.find(' '));
				if (tbl)
					table = true;
				if (k < 3)
					detail += (k ? " < " : (m ? " || " : "")) + s;
			}
		}
		ctx.count("tsan_reports");
		if (!strstr(r.desc, "race"))
			continue;
		if (!table) {
			ctx.count("tsan_reports_outside_table_state");
			continue;
		}
		std::string a = funcs[0].empty() ? "?" : funcs[0], b = funcs[1].empty() ? "?" : funcs[1];
		if (b < a)
			std::swap(a, b);
		ctx.viol(g_race_prop.c_str(), "data-race", g_race_prop + ":race:" + a + "|" + b, "ThreadSanitizer %s on table state: %s", r.desc,
			 detail.c_str());
	}
	nrep = 0;
}
#else
void tsan_collect(RunCtx &) {}
#endif
