// Scenario "world": rtr_mgr + sockets (real library threads) against simulated caches.
// Transport, observation points (--wrap=rtr_sync / rtr_wait_for_sync, callbacks), oracles. DESIGN §4, §7, §8.
#include "world.hpp"

World *g_world;
extern std::string g_race_prop;
extern bool g_teardown_only;
J gen_world(uint64_t seed, const J &opts);

extern "C" {
int __real_rtr_sync(struct rtr_socket *s);
int __real_rtr_wait_for_sync(struct rtr_socket *s);
}

namespace {

const char *WK[] = {"ok", "fail", "cache-reset", "error-pdu", "incomplete"};

void digest(uint64_t &h, uint64_t v)
{
	for (int i = 0; i < 8; i++) {
		h ^= (v >> (8 * i)) & 0xff;
		h *= 0x100000001b3ull;
	}
}

// ------------------------------------------------------------------ table access
std::set<PfxRec> actual_pfx_all(World &W)
{
	std::vector<PfxRec> v = enum_pfx(W.conf->pfx_table, W.sm);
	std::set<PfxRec> s;
	for (auto &r : v) {
		if (!s.insert(r).second)
			W.ctx.viol("C02", "enum-dup", "C02:world:enum-duplicate", "record %s enumerated twice", r.str().c_str());
	}
	return s;
}

std::set<SpkiRec> actual_spki_all(World &W)
{
	std::set<SpkiRec> s;
	for (auto ski : W.ski_universe) {
		spki_record *res = nullptr;
		unsigned n = 0;
		if (spki_table_search_by_ski(W.conf->spki_table, ski.data(), &res, &n) == SPKI_SUCCESS) {
			for (unsigned i = 0; i < n; i++)
				s.insert(from_spki_record(&res[i], W.sm));
			if (res)
				lrtr_free(res);
		}
	}
	return s;
}

template <class T> std::set<T> of_src(const std::set<T> &all, int si)
{
	std::set<T> s;
	for (auto &r : all)
		if (r.src == si)
			s.insert(r);
	return s;
}

uint32_t clamp_iv(uint32_t v, uint32_t lo, uint32_t hi)
{
	return v < lo ? lo : v > hi ? hi : v;
}

// what the three interval fields must be after an accepted End of Data (C17), from the statement
void expected_intervals(int mode, bool has_iv, const uint32_t sent[3], Belief &b)
{
	static const uint32_t lo[3] = {1, 1, 600}, hi[3] = {86400, 7200, 172800}; // refresh, retry, expire (RFC 8210)
	if (!has_iv || mode == RTR_INTERVAL_MODE_IGNORE_ANY)
		return;
	uint32_t *f[3] = {&b.refresh, &b.retry, &b.expire};
	for (int i = 0; i < 3; i++) {
		bool in = sent[i] >= lo[i] && sent[i] <= hi[i];
		if (mode == RTR_INTERVAL_MODE_ACCEPT_ANY || in)
			*f[i] = sent[i];
		else if (mode == RTR_INTERVAL_MODE_DEFAULT_MIN_MAX)
			*f[i] = clamp_iv(sent[i], lo[i], hi[i]);
		// IGNORE_ON_FAILURE: unchanged
	}
}

void group_oracle_on_progress(World &W, int si);

// ------------------------------------------------------------------ transport
uint64_t next_chunk(World &W, size_t want)
{
	if (W.chunk_mode == 0)
		return want;
	if (W.chunk_mode == 1)
		return 1;
	uint64_t c = 1 + W.chunk.below(W.chunk.chance(300) ? 4 : 96);
	return c < want ? c : want;
}

const J *fault_for(Peer &p, const char *on, unsigned k)
{
	for (size_t i = 0; i < p.faults.size(); i++)
		if (p.faults[i].gets("on") == on && (unsigned)p.faults[i].geti("k") == k)
			return &p.faults[i];
	return nullptr;
}

void fault_fired(World &W, Peer &p, const std::string &kind)
{
	W.ctx.count("fault_" + kind);
	sim_log(EV_FAULT, (uint64_t)p.si, 0);
	if (p.cur_x >= 0)
		p.xs[(size_t)p.cur_x].faults_fired++;
}

int tr_open_sim(void *sock)
{
	World &W = *g_world;
	Peer &p = *(Peer *)sock;
	group_oracle_on_progress(W, p.si);
	sim_sched_point();
	p.open_count++;
	p.wait_returned_success = false; // a reconnect lies between the wait and the next query
	p.notify_unanswered = false;
	p.started = true;
	p.stopping = false;
	sim_log(EV_IO, (1u << 8) | (unsigned)p.si, p.open_count);
	W.note("open s%d #%llu belief(expire=%u refresh=%u last_success=%llu) sock(expire=%u refresh=%u retry=%u last_update=%lld)", p.si, (unsigned long long)p.open_count,
	       W.belief[(size_t)p.si].expire, W.belief[(size_t)p.si].refresh, (unsigned long long)(W.belief[(size_t)p.si].last_success_ns / SIM_NS),
	       W.socks[(size_t)p.si].expire_interval, W.socks[(size_t)p.si].refresh_interval, W.socks[(size_t)p.si].retry_interval,
	       (long long)W.socks[(size_t)p.si].last_update);
	if (p.open)
		W.ctx.count("note_open_while_open");
	// C07: has the data of this socket outlived its expire interval?
	Belief &b = W.belief[(size_t)p.si];
	if (b.has_success) {
		uint64_t age = sim_now_ns() - b.last_success_ns;
		uint64_t exp = (uint64_t)b.expire * SIM_NS;
		if (age > exp + 2 * SIM_NS) {
			p.expect_reset_after_open = true;
			b.has_session = false;
			b.maybe_reset = false;
			W.ctx.count("probe_expired_at_open");
		} else if (age + 2 * SIM_NS >= exp) {
			b.maybe_reset = true;
			W.ctx.count("probe_expiry_band_at_open");
		}
	}
	bool want_now = p.expect_immediate_open;
	p.expect_immediate_open = false;
	if (want_now && sim_now_ns() != p.trigger_ns)
		W.ctx.viol("C13", "downgrade-reconnect-delayed", "C13:trigger:reconnect-not-immediate",
			   "socket %d reconnected %llu ms after a version downgrade trigger instead of at once", p.si,
			   (unsigned long long)((sim_now_ns() - p.trigger_ns) / 1000000));
	std::string outcome = "ok";
	uint64_t slow_s = 0;
	if (sim_now_ns() < p.down_until) {
		outcome = "fail";
		W.ctx.count("fault_open_unreachable");
	} else if (p.oi < p.opens.size()) {
		const J &o = p.opens[p.oi++];
		if (o.t == J::STR)
			outcome = o.str();
		else {
			slow_s = (uint64_t)o.geti("slow");
			outcome = o.gets("then", "ok");
		}
		cache_enter_clean_if_due(W, p);
	}
	if (slow_s) {
		W.ctx.count("fault_open_slow");
		// like the select() in tr_tcp_open: blocks, and is a cancellation point
		enum sim_wake_reason r = sim_block(SIM_W_IO, &p, sim_now_ns() + slow_s * SIM_NS, 1);
		if (r == SIM_CANCELLED)
			sim_cancel_point();
	}
	cache_enter_clean_if_due(W, p);
	if (sim_steps() > W.soft_steps && !W.truncate) {
		W.truncate = true;
		sim_wake(SIM_W_USER, &W);
	}
	if (outcome != "ok") {
		W.ctx.count("fault_open_fail");
		return TR_ERROR;
	}
	p.open = true;
	p.hdr_seen = false;
	p.gen++;
	p.inq.clear();
	p.peer_closed = false;
	p.in_stream.clear();
	p.consumed = 0;
	p.out_stream.clear();
	p.out_parsed = 0;
	p.cur_x = -1;
	p.faults = J::arr();
	p.open_since_query = true;
	p.opened_ns = sim_now_ns();
	cache_on_connect(W, p);
	return TR_SUCCESS;
}

void tr_close_sim(void *sock)
{
	Peer &p = *(Peer *)sock;
	sim_log(EV_IO, (2u << 8) | (unsigned)p.si, 0);
	p.open = false;
	p.inq.clear();
	p.notify_unanswered = false; // the connection on which the notify arrived is gone
	sim_sched_point();
}

void tr_free_sim(struct tr_socket *)
{
}

const char *tr_ident_sim(void *sock)
{
	static char buf[SIM_MAX_TASKS][16];
	Peer &p = *(Peer *)sock;
	snprintf(buf[p.si % SIM_MAX_TASKS], 16, "cache%d", p.si);
	return buf[p.si % SIM_MAX_TASKS];
}

// rendezvous delays waiting for this socket's progress through its current answer
void release_holds(World &W, Peer &p)
{
	if (p.cur_x < 0)
		return;
	Exchange &x = p.xs[(size_t)p.cur_x];
	// the socket has just been handed the last byte of the answer to its current query: what follows in its thread is the
	// non-cancellable apply phase (an operator action can be placed exactly here)
	if (x.gen == p.gen && !x.end_event_fired && x.bytes.size() > 0 && p.consumed >= x.start_off + x.bytes.size()) {
		x.end_event_fired = true;
		W.event("resp_end", p.si);
	}
	if (W.holds.empty())
		return;
	for (auto &h : W.holds) {
		if (h.released || h.sock != p.si || x.script_index != h.xi || x.gen != p.gen)
			continue;
		size_t end = x.start_off + x.bytes.size();
		if (p.consumed + h.before < end)
			continue;
		h.released = true;
		Peer &q = W.peers[(size_t)h.peer];
		uint64_t now = sim_now_ns();
		bool any = false;
		for (auto &sg : q.inq)
			if (sg.hold == h.id) {
				sg.t = now;
				sg.hold = 0;
				any = true;
			}
		if (any) {
			W.ctx.count("probe_rendezvous_released");
			sim_wake(SIM_W_IO, &q);
		}
	}
}

int tr_recv_sim(const void *sock, void *buf, const size_t len, const time_t timeout)
{
	World &W = *g_world;
	Peer &p = *(Peer *)sock;
	group_oracle_on_progress(W, p.si);
	sim_sched_point();
	sim_cancel_point();
	unsigned k = ++p.recv_calls;
	p.frag_retry_watch = false;
	W.ctx.count("recv_calls");
	W.event("recv", p.si);
	if (p.cur_x >= 0)
		p.xs[(size_t)p.cur_x].recv_calls_used = k;
	if (!p.open) {
		sim_log(EV_IO, (3u << 8) | (unsigned)p.si, (uint64_t)-1);
		return TR_ERROR;
	}
	if (const J *f = fault_for(p, "recv", k)) {
		std::string kind = f->gets("kind", "err");
		fault_fired(W, p, "recv_" + kind);
		return kind == "intr" ? TR_INTR : TR_ERROR;
	}
	if (len == 0)
		return 0;
	// C17: while established the library must not wait beyond the refresh deadline
	if (p.in_wait && timeout > 0) {
		Belief &b = W.belief[(size_t)p.si];
		if (b.has_success) {
			uint64_t dl = b.last_success_ns + ((uint64_t)b.refresh + 2) * SIM_NS;
			if (sim_now_ns() + (uint64_t)timeout * SIM_NS > dl && p.consumed == p.sync_enter_consumed)
				W.ctx.viol("C17", "wait-beyond-refresh", "C17:poll:recv-timeout-beyond-refresh",
					   "socket %d waits %lld s for a PDU although only %lld s of the refresh interval (%u s) remain", p.si,
					   (long long)timeout, (long long)((int64_t)(dl - sim_now_ns()) / (int64_t)SIM_NS), b.refresh);
		}
	}
	uint64_t deadline = timeout > 0 ? sim_now_ns() + (uint64_t)timeout * SIM_NS : sim_now_ns();
	for (;;) {
		uint64_t now = sim_now_ns();
		cache_poll(W, p);
		if (!p.inq.empty() && p.inq.front().t <= now) {
			Seg &s = p.inq.front();
			size_t avail = s.data.size() - s.pos;
			size_t n = (size_t)next_chunk(W, len < avail ? len : avail);
			if (n > avail)
				n = avail;
			if (n > len)
				n = len;
			memcpy(buf, &s.data[s.pos], n);
			s.pos += n;
			if (s.pos == s.data.size())
				p.inq.pop_front();
			p.consumed += n;
			if (W.reload_active >= 0 && W.wins[(size_t)W.reload_active].si == p.si)
				sim_wake(SIM_W_USER, &W.reader_cv);
			W.ctx.count("bytes_delivered", n);
			sim_log(EV_IO, (3u << 8) | (unsigned)p.si, n);
			release_holds(W, p);
			return (int)n;
		}
		if (p.inq.empty() && p.peer_closed) {
			// (an operator action can be placed between the transport noticing the hang-up and the library acting on it)
			if (!p.closed_event_gen_fired || p.closed_event_gen != p.gen) {
				p.closed_event_gen = p.gen;
				p.closed_event_gen_fired = true;
				W.event("recv_closed", p.si);
			}
			sim_log(EV_IO, (3u << 8) | (unsigned)p.si, (uint64_t)-4);
			W.ctx.count("fault_peer_closed_seen");
			return TR_CLOSED;
		}
		if (timeout < 0)
			return TR_ERROR; // SO_RCVTIMEO with a negative value fails in the real transport
		if (timeout == 0 || now >= deadline) {
			sim_log(EV_IO, (3u << 8) | (unsigned)p.si, (uint64_t)-2);
			return TR_WOULDBLOCK;
		}
		if (p.in_wait && p.notify_unanswered) {
			// the client goes back to waiting although a Serial Notify has been delivered and no query was sent
			p.notify_unanswered = false;
			W.ctx.viol("C17", "notify-ignored", "C17:poll:serial-notify-not-followed-by-query",
				   "socket %d consumed a Serial Notify while established but went on waiting (%lld s) instead of sending a Serial Query", p.si,
				   (long long)timeout);
		}
		uint64_t wake = deadline;
		if (!p.inq.empty() && p.inq.front().t < wake)
			wake = p.inq.front().t;
		if (cache_next_event(p) < wake)
			wake = cache_next_event(p);
		enum sim_wake_reason r = sim_block(SIM_W_IO, &p, wake, 1);
		if (r == SIM_CANCELLED)
			sim_cancel_point();
		if (!p.open)
			return TR_ERROR;
	}
}

int tr_send_sim(const void *sock, const void *pdu, const size_t len, const time_t timeout)
{
	World &W = *g_world;
	Peer &p = *(Peer *)sock;
	group_oracle_on_progress(W, p.si);
	(void)timeout;
	sim_sched_point();
	sim_cancel_point();
	unsigned k = ++p.send_calls;
	if (!p.open)
		return TR_ERROR;
	if (p.dead_gen == p.gen) {
		// a write has failed for good on this connection ("sticky" send fault: broken pipe): every later write fails as
		// well until the client closes and reconnects; reads just time out
		W.ctx.count("fault_send_dead_again");
		p.wait_returned_success = false;
		return TR_ERROR;
	}
	if (const J *f = fault_for(p, "send", k)) {
		std::string kind = f->gets("kind", "err");
		fault_fired(W, p, "send_" + kind);
		if (kind == "err" && f->geti("sticky", 0)) {
			p.dead_gen = p.gen;
			W.ctx.count("fault_send_sticky");
		}
		// tr_send_all gives up on this PDU: what it has written so far stays on the wire as a fragment (the only
		// incomplete PDU C14 permits) and is not part of the next PDU
		if (p.out_stream.size() > p.out_parsed) {
			p.frag_written = p.out_stream.size() - p.out_parsed;
			p.out_stream.resize(p.out_parsed);
			p.frag_gen = p.gen;
			p.frag_full = p.cur_pdu_full;
			p.frag_retry_watch = true;
			W.ctx.count("probe_pdu_fragment_after_send_fault");
		}
		p.wait_returned_success = false; // the poll was attempted in time; the transport refused it
		// (a Serial Notify stays unanswered: the client has to give the connection up or send the query again before it
		// goes back to waiting)
		return kind == "intr" ? TR_INTR : kind == "wouldblock" ? TR_WOULDBLOCK : TR_ERROR;
	}
	if (p.peer_closed && p.inq.empty()) {
		W.ctx.count("send_to_closed_peer");
		return TR_ERROR;
	}
	size_t n = (size_t)next_chunk(W, len);
	if (n > len)
		n = len;
	if (n == 0)
		return 0;
	const uint8_t *b = (const uint8_t *)pdu;
	if (p.frag_gen == p.gen) {
		// C14: bytes of a PDU that are already on the wire must not be handed to the transport again: a send that is
		// taken up again after a failed write (EINTR, would-block) continues where it stopped. Recognised as: the very
		// same PDU, complete, offered again before the client has received anything else.
		if (p.frag_retry_watch && len == p.frag_full.size() && memcmp(b, p.frag_full.data(), len) == 0)
			W.ctx.viol("C14", "pdu-restarted", "C14:sent:pdu-restarted-after-partial-write",
				   "socket %d: %zu byte(s) of a %zu-byte PDU (type %u) were on the wire when a write failed; the client then handed the whole PDU to "
				   "the transport again on the same connection",
				   p.si, p.frag_written, len, len > 1 ? b[1] : 0);
		else
			// (observed on the unchanged library after a failed Error Report write in a re-entered synchronisation;
			// a failed write is outside what C14 quantifies over: counted, not judged)
			W.ctx.count("note_bytes_after_abandoned_pdu_fragment");
		p.frag_gen = -1;
	}
	p.frag_retry_watch = false;
	if (p.out_stream.size() == p.out_parsed) // first write of a PDU: the whole PDU is in the buffer
		p.cur_pdu_full.assign(b, b + len);
	p.out_stream.insert(p.out_stream.end(), b, b + n);
	if (sim_now_ns() < W.digest_until)
		for (size_t i = 0; i < n; i++)
			digest(W.dig_sent, ((uint64_t)p.si << 8) | b[i]);
	sim_log(EV_IO, (4u << 8) | (unsigned)p.si, n);
	W.ctx.count("bytes_sent", n);
	cache_on_client_bytes(W, p);
	return (int)n;
}

// ------------------------------------------------------------------ callbacks
void pfx_cb(struct pfx_table *, const pfx_record rec, const bool added)
{
	World *W = g_world;
	if (!W)
		return;
	PfxRec r = from_pfx_record(&rec, W->sm);
	W->ctx.count("pfx_cb");
	struct Ev {
		World *w;
		int si;
		~Ev() { w->event("pfx_cb", si); }
	} ev_guard{W, r.src};
	if (r.src >= 0) {
		if (added)
			W->peers[(size_t)r.src].cb_add++;
		else
			W->peers[(size_t)r.src].cb_del++;
	}
	if (added) {
		if (!W->mirror_pfx.insert(r).second)
			W->ctx.viol("C09", "cb-add-present", "C09:cb:add-of-present", "callback reports add of %s which the log already holds", r.str().c_str());
	} else if (!W->mirror_pfx.erase(r))
		W->ctx.viol("C09", "cb-rm-absent", "C09:cb:remove-of-absent", "callback reports removal of %s which the log does not hold", r.str().c_str());
}

void spki_cb(struct spki_table *, const spki_record rec, const bool added)
{
	World *W = g_world;
	if (!W)
		return;
	SpkiRec r = from_spki_record(&rec, W->sm);
	W->ctx.count("spki_cb");
	if (r.src >= 0) {
		if (added)
			W->peers[(size_t)r.src].cb_add++;
		else
			W->peers[(size_t)r.src].cb_del++;
	}
	if (added) {
		if (!W->mirror_spki.insert(r).second)
			W->ctx.viol("C10", "cb-add-present", "C10:cb:add-of-present", "callback reports add of %s which the log already holds", r.str().c_str());
	} else if (!W->mirror_spki.erase(r))
		W->ctx.viol("C10", "cb-rm-absent", "C10:cb:remove-of-absent", "callback reports removal of %s which the log does not hold", r.str().c_str());
}

// C13: a synchronisation that ended because the socket was being stopped (it returned early, or its thread was cancelled
// inside it) may or may not have acted on a licensed downgrade trigger that was in its stream (first PDU of the connection
// in a lower version, Unsupported-Version report, hang-up before a session exists): either version is accepted at the next
// query. Without such a trigger nothing is licensed.
void version_effects_of_interrupted_sync(World &W, Peer &p, Belief &b, const Exchange &x, const Walk &w, size_t from)
{
	(void)W;
	if (w.downgraded && p.consumed >= from + 8)
		b.version = w.version_after;
	else if (b.version > 0 && (w.downgraded || (w.kind == WK_ERR_PDU && w.err_code == 4 && w.err_ver >= 0 && w.err_ver < b.version) ||
				   (!x.at_query.has_session && (x.closes || p.peer_closed || w.kind == WK_INCOMPLETE))))
		p.may_downgrade = true;
}

void check_stopped_socket(World &W, int si, const char *when)
{
	{
		Peer &p = W.peers[(size_t)si];
		if (p.in_sync && p.cur_x >= 0) { // cancelled inside rtr_sync: that call never returned to its audit
			Exchange &x = p.xs[(size_t)p.cur_x];
			Exchange view = x;
			size_t from = p.sync_enter_consumed, end = p.in_stream.size();
			view.bytes.assign(p.in_stream.begin() + (long)(from < end ? from : end), p.in_stream.begin() + (long)end);
			Walk w = walk_exchange(view, !p.hdr_seen);
			version_effects_of_interrupted_sync(W, p, W.belief[(size_t)si], x, w, from);
			W.ctx.count("probe_sync_cancelled_by_stop");
		}
	}
	sim_nopreempt_begin();
	simalloc_pause(1);
	struct End {
		~End()
		{
			simalloc_pause(0);
			sim_nopreempt_end();
		}
	} end_guard;
	std::set<PfxRec> ap = of_src(actual_pfx_all(W), si);
	std::set<SpkiRec> as = of_src(actual_spki_all(W), si);
	W.ctx.count("stop_audits");
	if (!ap.empty() || !as.empty())
		W.ctx.viol("C07", "records-after-stop", std::string("C07:stop:records-remain:") + when,
			   "socket %d was stopped (%s) but %zu prefix and %zu router-key records of it remain", si, when, ap.size(), as.size());
	W.model_pfx[(size_t)si].clear();
	W.model_spki[(size_t)si].clear();
	Belief &b = W.belief[(size_t)si];
	b.has_session = false;
	b.maybe_reset = false;
	b.has_success = false;
	W.peers[(size_t)si].c03_pending = false;
	W.peers[(size_t)si].expect_immediate_open = false; // (the stop came between the trigger and the reconnect)
	W.peers[(size_t)si].expect_reset_after_open = false;
	W.peers[(size_t)si].in_sync = false;
	W.peers[(size_t)si].in_wait = false;
}

// C15 quantifies over sequences of socket state changes, not over interleavings of two simultaneous manager
// callbacks (DESIGN §8 C15): the manager callback of a socket runs without voluntary task switches. It can still
// block (rtr_stop joining another socket's thread), and other tasks run then.
rtr_connection_state_fp g_orig_state_fp;
void state_fp_trampoline(const struct rtr_socket *s, const enum rtr_socket_state st, void *cfg, void *grp)
{
	sim_nopreempt_begin();
	g_orig_state_fp(s, st, cfg, grp);
	sim_nopreempt_end();
}
void serialise_callbacks(World &W, int si)
{
	rtr_socket &s = W.socks[(size_t)si];
	if (s.connection_state_fp && s.connection_state_fp != state_fp_trampoline) {
		g_orig_state_fp = s.connection_state_fp;
		s.connection_state_fp = state_fp_trampoline;
	}
}

// ---- C15 group oracle
struct LibGroups {
	std::vector<std::pair<int, int>> v; // (preference, status) in the order the manager presents them
};
void lib_groups_cb(const struct rtr_mgr_group *g, void *d)
{
	((LibGroups *)d)->v.push_back({(int)g->preference, (int)g->status});
}
LibGroups lib_groups(World &W)
{
	LibGroups L;
	rtr_mgr_for_each_group(W.conf, lib_groups_cb, &L);
	return L;
}
GInfo *ginfo_of(World &W, int pref)
{
	for (auto &g : W.ginfo)
		if (g.pref == pref && !g.removed)
			return &g;
	return nullptr;
}
void check_group_order(World &W, const char *when)
{
	LibGroups L = lib_groups(W);
	W.ctx.count("group_order_audits");
	for (size_t i = 1; i < L.v.size(); i++)
		if (L.v[i - 1].first >= L.v[i].first)
			W.ctx.viol("C15", "groups-not-ascending", "C15:order:not-ascending", "%s: groups are presented with preferences %d before %d", when, L.v[i - 1].first,
				   L.v[i].first);
	if (!L.v.empty()) {
		struct rtr_mgr_group *first = rtr_mgr_get_first_group(W.conf);
		int mn = L.v[0].first;
		for (auto &x : L.v)
			if (x.first < mn)
				mn = x.first;
		if ((int)first->preference != mn)
			W.ctx.viol("C15", "first-group-not-best", "C15:order:first-group", "%s: rtr_mgr_get_first_group returns preference %u, best is %d", when,
				   first->preference, mn);
	}
	size_t live = 0;
	for (auto &g : W.ginfo)
		live += !g.removed;
	if (live != L.v.size())
		W.ctx.viol("C15", "group-count", "C15:order:group-count", "%s: manager lists %zu groups, expected %zu", when, L.v.size(), live);
}
bool any_established(World &W)
{
	for (auto &g : W.ginfo)
		if (!g.removed && g.status == RTR_MGR_ESTABLISHED)
			return true;
	return false;
}
void eval_pending(World &W, const GPending &pd)
{
	LibGroups L = lib_groups(W);
	auto lib_status = [&](int pref) {
		for (auto &x : L.v)
			if (x.first == pref)
				return x.second;
		return -1;
	};
	W.ctx.count("group_consequence_audits");
	if (pd.kind == 1) {
		GInfo *me = ginfo_of(W, pd.pref);
		if (!me || me->status != RTR_MGR_ESTABLISHED || me->est_epoch != pd.epoch)
			return; // lost that status again meanwhile (a later establishment has its own consequences): nothing to demand any more
		for (auto &g : W.ginfo) {
			// (a group the operator is removing right now is being shut down by rtr_mgr_remove_group itself; what that
			// leaves behind is checked when it returns)
			if (g.removed || g.removing || g.pref <= pd.pref)
				continue;
			bool running = false;
			size_t recs = 0;
			for (int si : g.socks) {
				// (a socket whose shutdown has been announced is being stopped by some thread right now)
				if (W.socks[(size_t)si].thread_id != 0 && !W.peers[(size_t)si].stopping)
					running = true;
				recs += W.model_pfx[(size_t)si].size() + W.model_spki[(size_t)si].size();
			}
			bool all_stopping = !g.socks.empty();
			for (int si : g.socks)
				if (!W.peers[(size_t)si].stopping && W.socks[(size_t)si].thread_id != 0)
					all_stopping = false;
			// the leniency for "being shut down right now" needs someone who is doing it: a join in progress, the operator,
			// or another thread inside its own closing action for a more preferred group (between its last rtr_stop and
			// its CLOSED report). A group whose threads are all gone and that nobody is working on must be CLOSED.
			bool in_progress = false;
			for (int si : g.socks)
				if (W.socks[(size_t)si].thread_id != 0 && W.peers[(size_t)si].stopping)
					in_progress = true;
			bool other_actor = W.oper_busy;
			for (auto &af : W.acting_for)
				if (af.first != sim_self() && af.second < g.pref)
					other_actor = true;
			if (all_stopping && !(in_progress || other_actor))
				all_stopping = false;
			else if (all_stopping)
				W.ctx.count("probe_close_in_progress_elsewhere");
			if (((lib_status(g.pref) != RTR_MGR_CLOSED || g.status != RTR_MGR_CLOSED) && !all_stopping) || running)
				W.ctx.viol("C15", "less-preferred-not-closed", "C15:failover:less-preferred-still-open",
					   "group %d became ESTABLISHED but less preferred group %d is not shut down (manager status %d, reported %d, thread running %d, %zu records)",
					   pd.pref, g.pref, lib_status(g.pref), g.status, (int)running, recs);
		}
	} else if (pd.kind == 2) {
		if (any_established(W))
			return;
		if (lib_status(pd.expect) < 0)
			return; // removed meanwhile
		auto is_started = [&](int pref) {
			if (pref < 0 || lib_status(pref) < 0)
				return false;
			bool st = lib_status(pref) != RTR_MGR_CLOSED;
			GInfo *e = ginfo_of(W, pref);
			if (e)
				for (int si : e->socks)
					if (W.socks[(size_t)si].thread_id != 0)
						st = true;
			return st;
		};
		bool started = is_started(pd.expect) || is_started(pd.expect2);
		if (!started)
			W.ctx.viol("C15", "next-group-not-started", "C15:failover:best-closed-group-not-started",
				   "group %d entered ERROR while no group was ESTABLISHED, but the most preferred closed group %d was not started", pd.pref, pd.expect);
		else
			W.ctx.count("probe_failover_started_next_group");
	}
}
// the thread of socket si is back in its state machine (it calls its transport): whatever its earlier status reports
// implied must be visible now
void group_oracle_on_progress(World &W, int si)
{
	W.acting_for.erase(sim_self()); // back in its own state machine: whatever it was closing on behalf of a group is done
	if (W.gpend.empty())
		return;
	sim_nopreempt_begin();
	for (size_t i = 0; i < W.gpend.size();) {
		if (W.gpend[i].sock == si && W.gpend[i].task == sim_self()) {
			GPending pd = W.gpend[i];
			W.gpend.erase(W.gpend.begin() + (long)i);
			eval_pending(W, pd);
		} else
			i++;
	}
	sim_nopreempt_end();
}

void group_oracle_on_status(World &W, const struct rtr_mgr_group *group, int status, int si)
{
	// the thread of socket si has moved on: consequences of its earlier reports must be visible now
	for (size_t i = 0; i < W.gpend.size();) {
		// (reports about other groups that carry this socket come from inside its own failover action)
		if (W.gpend[i].sock == si && W.gpend[i].pref == (int)group->preference && W.gpend[i].task == sim_self()) {
			GPending pd = W.gpend[i];
			W.gpend.erase(W.gpend.begin() + (long)i);
			eval_pending(W, pd);
		} else
			i++;
	}
	GInfo *g = ginfo_of(W, (int)group->preference);
	if (!g)
		return;
	int prev = g->status;
	g->status = status;
	if (status == RTR_MGR_ESTABLISHED && prev != RTR_MGR_ESTABLISHED) {
		g->est_epoch++;
		W.ctx.count("probe_group_established");
		for (int s : g->socks) {
			const Belief &b = W.belief[(size_t)s];
			if (!b.has_success || W.peers[(size_t)s].stopping)
				W.ctx.viol("C15", "established-without-sync", "C15:status:established-without-all-sockets-synced",
					   "group %d is reported ESTABLISHED although its socket %d holds no synchronised data", g->pref, s);
		}
		if (si >= 0)
			{
				GPending pd{1, sim_self(), si, g->pref, 0};
				pd.epoch = g->est_epoch;
				W.gpend.push_back(pd);
				W.acting_for[sim_self()] = g->pref;
			}
	}
	if (status == RTR_MGR_CLOSED) {
		// its socket threads are gone: they cannot complete what their last reports implied
		for (size_t i = 0; i < W.gpend.size();)
			if (W.gpend[i].pref == g->pref)
				W.gpend.erase(W.gpend.begin() + (long)i);
			else
				i++;
	}
	if (status == RTR_MGR_CLOSED && prev != RTR_MGR_CLOSED && !W.oper_busy) {
		// shut down by failover: only on behalf of a strictly more preferred ESTABLISHED group
		// the shutdown is carried out by the thread that reported a more preferred group ESTABLISHED (it may take
		// long: rtr_stop joins threads; the establishing group can have lost that status again meanwhile)
		bool ok = false;
		for (auto &o : W.ginfo)
			if (!o.removed && o.pref < g->pref && o.status == RTR_MGR_ESTABLISHED)
				ok = true;
		for (auto &pd : W.gpend)
			if (pd.kind == 1 && pd.task == sim_self() && pd.pref < g->pref)
				ok = true;
		// (the establishing group may itself have been reported CLOSED meanwhile, its thread still being busy here:
		// rtr_stop reports before it joins)
		auto af = W.acting_for.find(sim_self());
		if (af != W.acting_for.end() && af->second < g->pref)
			ok = true;
		W.ctx.count("probe_group_closed_by_failover");
		if (!ok)
			W.ctx.viol("C15", "closed-without-better-group", "C15:failover:closed-on-behalf-of-less-preferred",
				   "group %d was shut down although no more preferred group is ESTABLISHED", g->pref);
	}
	if (status == RTR_MGR_ERROR && si >= 0 && !any_established(W)) {
		// the group list and "still closed" are taken from the manager itself (configuration facts): an operator call
		// may be adding or removing a group at this very moment
		int best = -1;
		LibGroups L = lib_groups(W);
		for (auto &o : L.v)
			if (o.first != g->pref && o.second == RTR_MGR_CLOSED && (best < 0 || o.first < best))
				best = o.first;
		// the manager may report ERROR before or after it has started the successor: "still closed" is also read from
		// what has been reported so far (a group it has just started has not reported anything yet)
		int best2 = -1;
		for (auto &o : L.v) {
			GInfo *og = ginfo_of(W, o.first);
			bool closed = og ? og->status == RTR_MGR_CLOSED : true; // (a group that is being added right now has reported nothing)
			if (o.first != g->pref && closed && (best2 < 0 || o.first < best2))
				best2 = o.first;
		}
		// only a real socket error triggers the start (not CONNECTING reports of a group already in ERROR)
		int st = (int)W.socks[(size_t)si].state;
		// a group that another thread is still shutting down at this very moment (reported CLOSED, thread not yet joined)
		// cannot be started: two manager actions overlapping at a blocking join are outside what C15 quantifies over
		auto being_shut_down = [&](int pref) {
			GInfo *og = ginfo_of(W, pref);
			if (!og)
				return false;
			for (int s2 : og->socks)
				if (W.socks[(size_t)s2].thread_id != 0 && (W.peers[(size_t)s2].stopping || W.socks[(size_t)s2].state == RTR_SHUTDOWN))
					return true;
			return false;
		};
		if ((best >= 0 && being_shut_down(best)) || (best2 >= 0 && being_shut_down(best2))) {
			W.ctx.count("probe_failover_target_being_shut_down");
			best = best2 = -1;
		}
		if ((best >= 0 || best2 >= 0) && (st == RTR_ERROR_FATAL || st == RTR_ERROR_TRANSPORT || st == RTR_ERROR_NO_DATA_AVAIL)) {
			GPending pd{2, sim_self(), si, g->pref, best >= 0 ? best : best2};
			pd.expect2 = best2;
			W.gpend.push_back(pd);
		}
	}
}

void status_cb(const struct rtr_mgr_group *group, enum rtr_mgr_status status, const struct rtr_socket *sock, void *)
{
	World *W = g_world;
	if (!W)
		return;
	int si = sock ? W->index_of(sock) : -1;
	int st = sock ? (int)sock->state : -1;
	W->ctx.count("status_cb");
	if (sim_self() != W->main_task)
		W->event("status", si);
	W->note("status group=%u status=%d sock=%d state=%d", group->preference, (int)status, si, st);
	sim_log(EV_CB, ((uint64_t)group->preference << 16) | ((uint64_t)status << 8) | (uint64_t)(si + 1), (uint64_t)(st + 1));
	// socket state sequence only: the group status seen here depends on how the starting thread and the new socket
	// thread interleave, not on the byte stream
	if (sim_now_ns() < W->digest_until)
		digest(W->dig_states, ((uint64_t)(si + 1) << 8) | (uint64_t)(st + 1));
	if (si >= 0 && st == RTR_SHUTDOWN) {
		W->peers[(size_t)si].stopping = true;
		W->peers[(size_t)si].expect_immediate_open = false;
	}
	sim_nopreempt_begin();
	group_oracle_on_status(*W, group, (int)status, si);
	sim_nopreempt_end();
	if (si >= 0)
		W->peers[(size_t)si].state_cb_last = st;
	if (status == RTR_MGR_CLOSED) {
		// every socket of the group that has been shut down completely must have lost its records (C07)
		for (unsigned i = 0; i < group->sockets_len; i++) {
			int gi = W->index_of(group->sockets[i]);
			if (gi >= 0 && group->sockets[i]->state == RTR_CLOSED && W->peers[(size_t)gi].stopping)
				check_stopped_socket(*W, gi, "group-closed");
		}
	}
}

// ------------------------------------------------------------------ oracles on the wire
bool maybe_expired(World &W, int si)
{
	Belief &b = W.belief[(size_t)si];
	if (!b.has_success)
		return true;
	return sim_now_ns() - b.last_success_ns + 2 * SIM_NS >= (uint64_t)b.expire * SIM_NS;
}

void check_others_untouched(World &W, int si, const std::set<PfxRec> &allp, const std::set<SpkiRec> &alls)
{
	for (int o = 0; o < W.n; o++) {
		if (o == si)
			continue;
		Peer &q = W.peers[(size_t)o];
		// (a socket whose state already says SHUTDOWN is being stopped even if the report of it has not been delivered yet)
		if (q.in_sync || q.stopping || !q.started || maybe_expired(W, o) || W.socks[(size_t)o].state == RTR_SHUTDOWN)
			continue;
		if (of_src(allp, o) != W.model_pfx[(size_t)o] || of_src(alls, o) != W.model_spki[(size_t)o]) {
			std::set<PfxRec> now1 = of_src(allp, o);
			std::string ex;
			for (auto &r : W.model_pfx[(size_t)o])
				if (!now1.count(r) && ex.size() < 200)
					ex += " -" + r.str();
			for (auto &r : now1)
				if (!W.model_pfx[(size_t)o].count(r) && ex.size() < 200)
					ex += " +" + r.str();
			W.ctx.viol("C03", "other-source-altered", "C03:others:altered",
				   "records of socket %d changed while socket %d synchronised (%zu prefix / %zu key records before, %zu / %zu now;%s)", o, si,
				   W.model_pfx[(size_t)o].size(), W.model_spki[(size_t)o].size(), now1.size(), of_src(alls, o).size(), ex.c_str());
			W.model_pfx[(size_t)o] = of_src(allp, o);
			W.model_spki[(size_t)o] = of_src(alls, o);
		}
	}
}

} // namespace

namespace {
uint64_t table_digest(World &W);
}

void oracle_on_client_pdu(World &W, Peer &p, const uint8_t *pdu, size_t len)
{
	// C14: every byte sequence handed to the transport is a sequence of complete, well-formed PDUs
	uint8_t ver = pdu[0], type = pdu[1];
	uint32_t flen = get32(pdu + 4);
	W.ctx.count("client_pdus");
	if (flen != len || flen > RTR_MAX_PDU) {
		W.ctx.viol("C14", "sent-bad-length", flen > RTR_MAX_PDU ? "C14:sent:length-exceeds-own-maximum" : "C14:sent:length-field-mismatch",
			   "socket %d sent a PDU of type %u whose length field is %u (client maximum %u)", p.si, type, flen, RTR_MAX_PDU);
		return;
	}
	if (type == PDU_RESET_QUERY) {
		if (len != 8 || get16(pdu + 2) != 0)
			W.ctx.viol("C14", "sent-malformed-query", "C14:sent:reset-query-malformed", "malformed Reset Query: %s", hexstr(pdu, len).c_str());
	} else if (type == PDU_SERIAL_QUERY) {
		if (len != 12)
			W.ctx.viol("C14", "sent-malformed-query", "C14:sent:serial-query-malformed", "malformed Serial Query: %s", hexstr(pdu, len).c_str());
	} else if (type == PDU_ERROR) {
		bool ok = len >= 16;
		uint32_t el = 0, tl = 0;
		if (ok) {
			el = get32(pdu + 8);
			ok = (uint64_t)16 + el <= len;
		}
		if (ok) {
			tl = get32(pdu + 12 + el);
			ok = (uint64_t)16 + el + tl == len;
		}
		if (!ok)
			W.ctx.viol("C14", "sent-malformed-error", "C14:sent:error-report-inner-lengths", "Error Report with inconsistent inner lengths: %s",
				   hexstr(pdu, len, 40).c_str());
		W.ctx.count("client_error_reports");
	} else {
		W.ctx.viol("C14", "sent-bad-type", "C14:sent:unexpected-type", "socket %d sent a PDU of type %u", p.si, type);
	}
	(void)ver;
}

static void oracle_on_query_locked(World &W, Peer &p, Exchange &x);
void oracle_on_query(World &W, Peer &p, Exchange &x)
{
	sim_nopreempt_begin();
	simalloc_pause(1);
	oracle_on_query_locked(W, p, x);
	simalloc_pause(0);
	sim_nopreempt_end();
}

static void oracle_on_query_locked(World &W, Peer &p, Exchange &x)
{
	int si = p.si;
	Belief &b = W.belief[(size_t)si];
	p.query_count++;
	W.ctx.count("queries_seen");
	if (W.max_queries && ++W.total_queries >= W.max_queries && !W.truncate) {
		// the horizon of a fixed-length run in queries (a cache may legally make the client poll back to back): the
		// comparison digests end here, at a point that is the same in every variant of the plan
		W.truncate = true;
		W.digest_until = sim_now_ns();
		W.dig_tables_cut = table_digest(W);
		W.tables_cut = true;
		W.ctx.count("runs_ended_by_query_horizon");
		sim_wake(SIM_W_USER, &W);
	}
	W.note("query s%d %s v%d sess=%u serial=%u | belief has=%d sess=%u serial=%u ver=%d maybe=%d", si, x.qtype == 2 ? "RESET" : "SERIAL", x.qver, x.qsession,
	       x.qserial, b.has_session, b.session, b.serial, b.version, b.maybe_reset);
	// ---- C13: version of the query
	if (p.may_downgrade && x.qver == b.version - 1)
		b.version = x.qver;
	p.may_downgrade = false;
	if (x.qver != b.version && p.pending_downgrade && x.qver == b.version + 1) {
		const char *trig = p.pending_downgrade == 2 ? "hangup-before-session" : "unsupported-version-report";
		W.ctx.viol("C13", std::string("trigger-ignored-") + trig, std::string("C13:trigger-ignored:") + trig,
			   "socket %d: the licensed downgrade trigger '%s' occurred but the next query still carries version %d", si, trig, x.qver);
		b.version = x.qver;
	} else if (x.qver != b.version) {
		W.ctx.viol("C13", x.qver > b.version ? "version-raised" : "version-unlicensed-change",
			   x.qver > b.version ? "C13:query:version-raised" : "C13:query:version-lowered-without-trigger",
			   "socket %d sent a query with version %d, negotiated version is %d", si, x.qver, b.version);
		b.version = x.qver;
	}
	// ---- C07: expiry at (re)connect
	if (p.expect_reset_after_open) {
		std::set<PfxRec> ap = of_src(actual_pfx_all(W), si);
		std::set<SpkiRec> as = of_src(actual_spki_all(W), si);
		W.ctx.count("expiry_audits");
		if (!ap.empty() || !as.empty())
			W.ctx.viol("C07", "expired-records-kept", "C07:expiry:records-kept",
				   "socket %d reconnected more than its expire interval (%u s) after the last successful synchronisation, "
				   "yet %zu prefix and %zu router-key records of it are still present",
				   si, b.expire, ap.size(), as.size());
		if (x.qtype != PDU_RESET_QUERY)
			W.ctx.viol("C07", "expired-no-reset", "C07:expiry:serial-query", "socket %d sent a Serial Query although its data had expired", si);
		W.model_pfx[(size_t)si] = ap;
		W.model_spki[(size_t)si] = as;
		p.expect_reset_after_open = false;
		p.c03_pending = false;
	} else if (b.maybe_reset) {
		// inside the +-2 s band either outcome is fine; learn which one happened
		if (x.qtype == PDU_RESET_QUERY) {
			b.has_session = false;
			W.model_pfx[(size_t)si] = of_src(actual_pfx_all(W), si);
			W.model_spki[(size_t)si] = of_src(actual_spki_all(W), si);
		}
		p.c03_pending = false;
	}
	b.maybe_reset = false;
	// data that may have outlived its expire interval may legitimately have been purged at any of the
	// library's purge points (also after no-data / cache-reset answers, without a reconnect): learn the outcome
	if (maybe_expired(W, si) && b.has_success) {
		W.model_pfx[(size_t)si] = of_src(actual_pfx_all(W), si);
		W.model_spki[(size_t)si] = of_src(actual_spki_all(W), si);
	}
	// ---- C03: between two exchanges nothing but an expiry purge or a stop changes the records of this cache
	if (!W.hostile && !(maybe_expired(W, si) && b.has_success)) {
		std::set<PfxRec> ap = of_src(actual_pfx_all(W), si);
		std::set<SpkiRec> as = of_src(actual_spki_all(W), si);
		W.ctx.count("between_exchange_audits");
		if (ap != W.model_pfx[(size_t)si] || as != W.model_spki[(size_t)si]) {
			W.ctx.viol("C03", "records-changed-between-exchanges", "C03:between-exchanges:records-differ",
				   "socket %d holds %zu prefix / %zu router-key records when it sends its query, but the previous exchanges (and stops) left %zu / %zu", si,
				   ap.size(), as.size(), W.model_pfx[(size_t)si].size(), W.model_spki[(size_t)si].size());
			W.model_pfx[(size_t)si] = ap;
			W.model_spki[(size_t)si] = as;
		}
	}
	// ---- C05: reset vs serial, session and serial carried
	bool want_serial = b.has_session;
	bool ok = want_serial ? (x.qtype == PDU_SERIAL_QUERY && x.qsession == b.session && x.qserial == b.serial) : x.qtype == PDU_RESET_QUERY;
	if (!ok) {
		char want[64], got[64];
		if (want_serial)
			snprintf(want, sizeof(want), "Serial Query(session %u, serial %u)", b.session, b.serial);
		else
			snprintf(want, sizeof(want), "Reset Query");
		if (x.qtype == PDU_SERIAL_QUERY)
			snprintf(got, sizeof(got), "Serial Query(session %u, serial %u)", x.qsession, x.qserial);
		else
			snprintf(got, sizeof(got), "Reset Query");
		std::string cls = want_serial ? (x.qtype == PDU_RESET_QUERY ? "reset-instead-of-serial" : "wrong-session-or-serial") : "serial-instead-of-reset";
		W.ctx.viol("C05", cls, "C05:query:" + cls, "socket %d sent %s, expected %s", si, got, want);
		if (p.c03_pending)
			W.ctx.viol("C03", "next-query-after-failure", "C03:next-query:" + cls,
				   "after a failed response that left the records in place socket %d sent %s, expected %s", si, got, want);
		b.has_session = x.qtype == PDU_SERIAL_QUERY;
		b.session = x.qsession;
		b.serial = x.qserial;
	}
	p.c03_pending = false;
	// ---- C17: polling discipline while established
	if (p.wait_returned_success) {
		uint64_t now = sim_now_ns();
		if (p.notify_consumed && now != p.wait_return_ns)
			W.ctx.viol("C17", "notify-not-polled-at-once", "C17:poll:delay-after-notify", "socket %d polled %llu ms after consuming a Serial Notify", si,
				   (unsigned long long)((now - p.wait_return_ns) / 1000000));
		// a PDU that was in flight at the deadline (header before, payload after it) may hold the client in its
		// receive for up to the receive timeout; that is inherent to a blocking receive and not judged
		uint64_t slack = p.stray_since_success ? 62 : 2;
		if (b.has_success && now > b.last_success_ns + ((uint64_t)b.refresh + slack) * SIM_NS)
			W.ctx.viol("C17", "poll-late", "C17:poll:later-than-refresh", "socket %d polled %llu s after its last synchronisation, refresh interval is %u s",
				   si, (unsigned long long)((now - b.last_success_ns) / SIM_NS), b.refresh);
		W.ctx.count(p.notify_consumed ? "probe_poll_after_notify" : "probe_poll_after_refresh");
		p.wait_returned_success = false;
	}
	p.open_since_query = false;
	p.notify_unanswered = false;
	p.pending_downgrade = 0;
	x.at_query = b;
	x.base_pfx = W.model_pfx[(size_t)si];
	x.base_spki = W.model_spki[(size_t)si];
}

namespace {

// C14: the Error Report (if any) the client sent in answer to the offending PDU of this exchange
void check_error_report(World &W, Peer &p, Exchange &x, const Walk &w, const Bytes &stream, bool writable)
{
	// PDUs the client sent after the query of this exchange
	std::vector<Bytes> reports;
	size_t pos = x.out_off_after_query;
	while (p.gen == x.gen && pos + 8 <= p.out_parsed) {
		uint32_t l = get32(&p.out_stream[pos + 4]);
		if (l < 8 || pos + l > p.out_parsed)
			break;
		if (p.out_stream[pos + 1] == PDU_ERROR)
			reports.push_back(Bytes(p.out_stream.begin() + (long)pos, p.out_stream.begin() + (long)(pos + l)));
		pos += l;
	}
	W.ctx.count("report_audits");
	bool offender_is_error = w.off + 2 <= stream.size() && stream[w.off + 1] == PDU_ERROR;
	if (w.kind != WK_FAIL) {
		if (!reports.empty() && (w.kind == WK_ERR_PDU))
			W.ctx.viol("C14", "report-in-reply-to-report", "C14:report:answered-error-report", "socket %d answered an Error Report with an Error Report", p.si);
		return;
	}
	if (offender_is_error || !w.need_report) {
		if (!reports.empty())
			W.ctx.viol("C14", "report-in-reply-to-report", "C14:report:answered-error-report", "socket %d answered a malformed Error Report with an Error Report",
				   p.si);
		return;
	}
	if (w.why == "version" && writable && (reports.empty() || get16(&reports[0][2]) != 8))
		W.ctx.viol("C13", "wrong-version-not-refused", "C13:version:no-code-8-report",
			   "socket %d received a PDU whose version differs from the negotiated one but did not answer with an Unexpected-Protocol-Version report", p.si);
	if (reports.empty()) {
		if (writable)
			W.ctx.viol("C14", "report-missing", "C14:report:missing:" + w.why, "socket %d detected '%s' at stream offset %zu but sent no Error Report", p.si,
				   w.why.c_str(), w.off);
		return;
	}
	const Bytes &r = reports[0];
	int code = get16(&r[2]);
	// a payload violation of another record family may legitimately be the one the client met first
	for (size_t ai = 1; ai < w.alts.size(); ai++) {
		const Walk::Alt &a = w.alts[ai];
		if (!a.codes.count(code) || r.size() < 16)
			continue;
		uint32_t el = get32(&r[8]);
		size_t have = stream.size() > a.off ? stream.size() - a.off : 0;
		size_t plen = a.olen < have ? a.olen : have;
		if ((uint64_t)16 + el <= r.size() && el <= plen && el > 0 && memcmp(&r[12], &stream[a.off], el) == 0 &&
		    !(w.codes.count(code) && el <= (w.olen < stream.size() - w.off ? w.olen : stream.size() - w.off) && memcmp(&r[12], &stream[w.off], el) == 0)) {
			W.ctx.count("probe_report_for_other_family_first");
			W.ctx.count("probe_report_" + a.why);
			if (r[0] != (uint8_t)w.version_after)
				W.ctx.viol("C14", "report-version", "C14:report:version", "Error Report carries version %u, negotiated version is %d", r[0], w.version_after);
			return;
		}
	}
	W.ctx.count("probe_report_" + w.why);
	if (r[0] != (uint8_t)w.version_after)
		W.ctx.viol("C14", "report-version", "C14:report:version", "Error Report carries version %u, negotiated version is %d", r[0], w.version_after);
	if (!w.codes.count(code))
		W.ctx.viol("C14", "report-code", "C14:report:code:" + w.why, "Error Report for '%s' carries code %d", w.why.c_str(), code);
	if (r.size() >= 16) {
		uint32_t el = get32(&r[8]);
		if ((uint64_t)16 + el <= r.size()) {
			size_t have = stream.size() > w.off ? stream.size() - w.off : 0;
			size_t plen = w.olen < have ? w.olen : have;
			if (el > plen || memcmp(&r[12], &stream[w.off], el) != 0) {
				W.ctx.viol("C14", el > plen ? "report-encap-too-long" : "report-encap-not-prefix",
					   std::string(el > plen ? "C14:report:encapsulated-longer-than-offending-pdu:" : "C14:report:encapsulated-not-a-prefix:") + w.why,
					   "Error Report for '%s': encapsulated PDU (%u bytes: %s) is not a byte-exact prefix of the offending PDU as received (%zu bytes: %s)",
					   w.why.c_str(), el, hexstr(&r[12], el < r.size() - 12 ? el : r.size() - 12, 24).c_str(), plen,
					   hexstr(&stream[w.off], plen, 24).c_str());
			}
		}
	}
}

void sync_exit_locked(World &W, int si, int rc);
void sync_exit(World &W, int si, int rc)
{
	// audits are atomic with respect to the other simulated tasks (no voluntary switch inside)
	sim_nopreempt_begin();
	simalloc_pause(1);
	sync_exit_locked(W, si, rc);
	// only now is this socket's model up to date again: until here other sockets' audits leave its records alone
	W.peers[(size_t)si].in_sync = false;
	simalloc_pause(0);
	sim_nopreempt_end();
}

void sync_exit_locked(World &W, int si, int rc)
{
	Peer &p = W.peers[(size_t)si];
	Belief &b = W.belief[(size_t)si];
	const rtr_socket &sock = W.socks[(size_t)si];
	W.ctx.count("sync_audits");
	if (p.cur_x < 0) {
		W.ctx.count("note_sync_without_query");
		return;
	}
	Exchange &x = p.xs[(size_t)p.cur_x];
	x.sync_calls++;
	x.audited = true;
	// the bytes this call had in front of it: from where it started reading to the end of the exchange's answer
	Exchange view = x;
	size_t from = p.sync_enter_consumed;
	// everything that exists on this connection: bytes of a later unsolicited Serial Notify can complete a PDU the
	// cache cut short, and a correct client would read them just the same
	size_t end = p.in_stream.size();
	view.bytes.assign(p.in_stream.begin() + (long)(from < end ? from : end), p.in_stream.begin() + (long)end);
	view.at_query = x.at_query;
	if (x.sync_calls > 1) // a re-entered synchronisation continues with what the first call learnt
		view.at_query.version = b.version;
	// "first PDU of the connection": no complete header has been received on it yet (an interrupted read may have
	// consumed a few bytes without delivering a header)
	Walk w = walk_exchange(view, !p.hdr_seen);
	if (p.consumed >= from + 8)
		p.hdr_seen = true;
	int faults_now = x.faults_fired - p.sync_faults_before;
	// C18: an allocation failed inside this call: the response may fail (then the failure clause applies) or still succeed
	bool alloc_failed = simalloc_failures() != p.sync_allocfail_before;
	if (alloc_failed)
		W.ctx.count("probe_alloc_failure_inside_sync");
	bool reentered = x.sync_calls > 1;
	W.ctx.count(std::string("walk_") + WK[w.kind] + (w.kind == WK_FAIL || w.kind == WK_INCOMPLETE ? "_" + w.why : ""));
	if (faults_now)
		W.ctx.count("sync_with_transport_fault");
	if (reentered)
		W.ctx.count("probe_sync_reentered");
	sim_log(EV_OBS, ((uint64_t)si << 8) | (uint64_t)w.kind, (uint64_t)(rc == RTR_SUCCESS));
	W.note("sync_exit s%d rc=%d x=%d q=%s walk=%s/%s off=%zu faults=%d reentered=%d from=%zu xbytes=%zu closes=%d state=%d tail=%d ver=%d rsid=%d plan=%s", si, rc, x.id,
	       x.qtype == 2 ? "reset" : "serial", WK[w.kind], w.why.c_str(), w.off, x.faults_fired - p.sync_faults_before, x.sync_calls > 1, from, x.bytes.size(),
	       x.closes, (int)sock.state, x.tail, (int)sock.version, (int)sock.request_session_id, x.plan.dump().substr(0, 200).c_str());

	// C06: the NEW set of a reload is what this response really carried (a response may be well-formed and still not
	// be the cache's complete state, e.g. with an End of Data in the middle)
	if (W.c06 && !W.wins.empty() && W.wins.back().si == si && W.wins.back().done && W.wins.back().xid == x.id && W.wins.back().call == x.sync_calls &&
	    w.kind == WK_OK) {
		W.wins.back().newp = w.new_pfx;
		W.wins.back().news = w.new_spki;
	}
	if (p.stopping || sock.state == RTR_SHUTDOWN) {
		// the socket is being stopped (operator or failover) while this synchronisation was running: whatever it
		// returned, rtr_stop purges the socket's records right after; judged by the stop audit (C07), not here
		W.ctx.count("probe_sync_ended_by_stop");
		p.stopping = true;
		// C13: the interrupted synchronisation may or may not have acted on a licensed downgrade trigger that was in its
		// stream (first PDU of the connection in a lower version, Unsupported-Version report, hang-up before a session
		// exists): either version is accepted at the next query. Without such a trigger nothing is licensed.
		version_effects_of_interrupted_sync(W, p, b, x, w, from);
		return;
	}
	// one instant for both tables: an enumeration that had to wait for a table lock (held by a preempted socket thread) let
	// other tasks run in between and is taken again
	std::set<PfxRec> allp;
	std::set<SpkiRec> alls;
	for (int attempt = 0;; attempt++) {
		uint64_t blocks = sim_get_stats()->lock_blocks;
		allp = actual_pfx_all(W);
		alls = actual_spki_all(W);
		if (sim_get_stats()->lock_blocks == blocks || attempt >= 8)
			break;
		W.ctx.count("probe_audit_snapshot_retaken");
	}
	std::set<PfxRec> ap = of_src(allp, si);
	std::set<SpkiRec> as = of_src(alls, si);
	const std::set<PfxRec> &bp = W.model_pfx[(size_t)si];
	const std::set<SpkiRec> &bs = W.model_spki[(size_t)si];
	bool must_fail = faults_now > 0 || w.kind == WK_FAIL || w.kind == WK_INCOMPLETE;
	bool unlisted = !must_fail && (w.kind == WK_CACHE_RESET || w.kind == WK_ERR_PDU);
	bool framing_clause = w.kind == WK_FAIL && (w.why == "framing" || w.why == "unktype");
	bool was_reload = x.qtype == PDU_RESET_QUERY && (!bp.empty() || !bs.empty());
	std::string tag = w.kind == WK_FAIL ? w.why : WK[w.kind];
	if (faults_now && w.kind == WK_OK)
		tag = "transport-fault";

	if (rc == RTR_SUCCESS) {
		if (framing_clause) {
			W.ctx.viol("C04", "malformed-pdu-accepted", "C04:framing:accepted:" + w.why, "socket %d: response with a '%s' PDU at offset %zu ended successfully",
				   si, w.why.c_str(), w.off);
		}
		if (must_fail || unlisted) {
			if (!W.hostile || framing_clause) {
				W.ctx.viol("C03", "failing-response-accepted", "C03:accepted:" + tag, "socket %d: rtr_sync succeeded on a response that must fail (%s)", si,
					   tag.c_str());
				if (w.why == "sess-cr" || w.why == "sess-eod")
					W.ctx.viol("C05", "foreign-session-accepted", "C05:session:accepted:" + w.why,
						   "socket %d accepted a response whose session id differs from the established one (%s)", si, w.why.c_str());
				if (w.why == "version")
					W.ctx.viol("C13", "wrong-version-accepted", "C13:version:accepted", "socket %d accepted a PDU of a version other than the negotiated one", si);
			}
		} else if (w.domain_ok && !W.hostile) {
			if (ap != w.new_pfx || as != w.new_spki) {
				size_t miss = 0, extra = 0;
				for (auto &r : w.new_pfx)
					miss += !ap.count(r);
				for (auto &r : ap)
					extra += !w.new_pfx.count(r);
				for (auto &r : w.new_spki)
					miss += !as.count(r);
				for (auto &r : as)
					extra += !w.new_spki.count(r);
				W.ctx.viol("C03", "success-wrong-contents", std::string("C03:success:contents:") + (x.qtype == PDU_RESET_QUERY ? "reset" : "delta"),
					   "socket %d: after a successful %s the records of this cache differ from previous+announced-withdrawn: %zu missing, %zu extra", si,
					   x.qtype == PDU_RESET_QUERY ? "reset" : "incremental update", miss, extra);
			}
			if (sock.serial_number != w.serial)
				W.ctx.viol("C03", "success-wrong-serial", "C03:success:serial", "socket %d stores serial %u after End of Data carried %u", si,
					   sock.serial_number, w.serial);
			// C09: an atomic reload reports only the net difference
			if (was_reload && W.plan["cfg"].geti("callbacks", 1)) {
				size_t add = 0, del = 0;
				for (auto &r : ap)
					add += !bp.count(r);
				for (auto &r : bp)
					del += !ap.count(r);
				for (auto &r : as)
					add += !bs.count(r);
				for (auto &r : bs)
					del += !as.count(r);
				W.ctx.count("probe_reload_with_old_data");
				if (p.cb_add != add || p.cb_del != del)
					W.ctx.viol("C09", "reload-not-net-diff", "C09:reload:callbacks-not-net-difference",
						   "socket %d reload: %llu add / %llu remove callbacks, net difference is %zu / %zu", si, (unsigned long long)p.cb_add,
						   (unsigned long long)p.cb_del, add, del);
			}
		}
		// what the client may believe from now on
		b.has_session = true;
		b.session = w.kind == WK_OK ? w.session : (uint16_t)sock.session_id;
		b.serial = w.kind == WK_OK ? w.serial : sock.serial_number;
		b.version = w.version_after;
		b.has_success = true;
		b.last_success_ns = sim_now_ns();
		p.stray_since_success = false;
		// C17: interval fields
		if (w.kind == WK_OK) {
			expected_intervals(W.iv_mode, w.has_iv, w.iv, b);
			W.ctx.count("interval_audits");
			if (sock.refresh_interval != b.refresh || sock.retry_interval != b.retry || sock.expire_interval != b.expire)
				W.ctx.viol("C17", "interval-fields", "C17:intervals:mode-" + std::to_string(W.iv_mode),
					   "socket %d after End of Data (refresh %u retry %u expire %u, version %d, mode %d): fields are %u/%u/%u, prescribed %u/%u/%u", si,
					   w.iv[0], w.iv[1], w.iv[2], w.version_after, W.iv_mode, sock.refresh_interval, sock.retry_interval, sock.expire_interval,
					   b.refresh, b.retry, b.expire);
			b.refresh = sock.refresh_interval;
			b.retry = sock.retry_interval;
			b.expire = sock.expire_interval;
		}
		// C08 presupposes that what the client accepted during the fault phase was honest: a response that is
		// well-formed but does not carry the cache's real data (e.g. an extra End of Data in the middle) leaves a wrong
		// base for later deltas that no client can detect
		// (an unmutated answer of the simulated cache is its real delta / full set by construction, whatever the client
		// made of earlier answers)
		bool mutated = (x.plan.has("muts") && x.plan["muts"].size() > 0) || x.plan.gets("resp", "auto") == "raw";
		// bytes left over from an earlier (mutated) answer on the same connection that are not plain Serial Notifies
		// become part of what the client reads as this answer
		if (x.start_off > from) {
			size_t lim = x.start_off - from, pos = 0;
			while (pos + 12 <= lim && view.bytes[pos + 1] == PDU_SERIAL_NOTIFY && get32(&view.bytes[pos + 4]) == 12)
				pos += 12;
			if (pos != lim)
				mutated = true;
		}
		// an answer that the cache cut short and that was completed by bytes of a later unsolicited PDU (a Serial Notify
		// supplying the missing tail of an End of Data) is not the cache's answer either
		if (w.kind == WK_OK && from + w.consumed > x.start_off + x.bytes.size())
			mutated = true;
		// (for a mutated answer: what it amounted to must be the cache's data set at the serial its End of Data announced;
		// the cache's data may have moved on since)
		const std::set<PfxRec> *hp = &p.data;
		const std::set<SpkiRec> *hk = &p.keys;
		auto hit = p.hist.find(w.serial);
		if (w.kind == WK_OK && w.session == p.session && hit != p.hist.end()) {
			hp = &hit->second.first;
			hk = &hit->second.second;
		}
		bool stream_honest = !mutated || !(w.kind == WK_OK && !must_fail) || (w.new_pfx == *hp && w.new_spki == (w.version_after >= 1 ? *hk : std::set<SpkiRec>()));
		W.note("honesty s%d x=%d mutated=%d honest=%d tainted=%d walk_keys=%zu cache_keys=%zu client_keys=%zu", si, x.id, (int)mutated, (int)stream_honest,
		       (int)p.tainted, w.new_spki.size(), p.keys.size(), as.size());
		if (!stream_honest && !p.tainted) {
			p.tainted = true;
			W.ctx.count("probe_accepted_response_not_cache_state");
		}
		// a version-0 connection carries no router keys: keys the client still holds from a version-1 past of the same
		// session are outside what the cache can govern, so they are not part of the comparison then
		bool equal_now = ap == p.data && (b.version >= 1 ? as == p.keys : true);
		// (the wrong base is gone once the client holds the cache's current data under the cache's current serial)
		if (stream_honest && equal_now && b.has_session && b.session == p.session && b.serial == p.serial)
			p.tainted = false;
		if (p.clean && equal_now && !p.converged) {
			p.converged = true;
			p.t_converged = sim_now_ns();
			sim_wake(SIM_W_USER, &W);
		}
	} else {
		if (w.kind == WK_OK && !must_fail && !w.either && !reentered && !W.hostile && !alloc_failed) {
			W.ctx.viol("C03", "valid-response-rejected", std::string("C03:rejected-valid:") + (x.qtype == PDU_RESET_QUERY ? "reset" : "delta"),
				   "socket %d: an entirely valid %s (%u payload PDUs, no fault) did not end successfully (state %d)", si,
				   x.qtype == PDU_RESET_QUERY ? "reset response" : "incremental update", w.n_payload, (int)sock.state);
		}
		bool kept = ap == bp && as == bs;
		bool gone = ap.empty() && as.empty();
		if (kept && !gone) {
			if (must_fail && !W.hostile) {
				p.c03_pending = true;
			}
			W.ctx.count("probe_failed_sync_records_kept");
		} else if (gone) {
			if (!(bp.empty() && bs.empty())) {
				W.ctx.count("probe_failed_sync_records_purged");
				b.has_session = false;
			}
		} else if (!W.hostile || framing_clause) {
			W.ctx.viol(framing_clause ? "C04" : "C03", "failed-response-partially-applied",
				   std::string(framing_clause ? "C04" : "C03") + ":failed:partial:" + tag,
				   "socket %d: response failed (%s) but the records of this cache are neither those from before nor all gone: prefixes %zu->%zu, keys %zu->%zu",
				   si, tag.c_str(), bp.size(), ap.size(), bs.size(), as.size());
		}
		// C17: the timers may only move on an End of Data. A response that fails while its records are applied has
		// already delivered its End of Data; the statements leave open whether its intervals count, so both are accepted.
		if (sock.refresh_interval != b.refresh || sock.retry_interval != b.retry || sock.expire_interval != b.expire) {
			Belief t = b;
			if ((w.kind == WK_FAIL && (w.why == "dup" || w.why == "unk" || w.why == "flags")) || (w.kind == WK_OK && alloc_failed))
				expected_intervals(W.iv_mode, w.has_iv, w.iv, t);
			if (sock.refresh_interval == t.refresh && sock.retry_interval == t.retry && sock.expire_interval == t.expire) {
				W.ctx.count("probe_intervals_taken_from_failed_response");
			} else if (!W.hostile) {
				W.ctx.viol("C17", "interval-fields-after-failure", "C17:intervals:changed-by-failed-response:" + tag,
					   "socket %d: a failed response (%s) changed the timers to %u/%u/%u (were %u/%u/%u)", si, tag.c_str(), sock.refresh_interval,
					   sock.retry_interval, sock.expire_interval, b.refresh, b.retry, b.expire);
			}
			b.refresh = sock.refresh_interval;
			b.retry = sock.retry_interval;
			b.expire = sock.expire_interval;
		}
		// effects on what the client may believe
		if (!must_fail && w.kind == WK_CACHE_RESET) {
			b.has_session = false;
			W.ctx.count("probe_cache_reset_consumed");
		} else if (!must_fail && w.kind == WK_ERR_PDU) {
			W.ctx.count("probe_error_pdu_consumed_code_" + std::to_string(w.err_code));
			if (w.err_code == 2)
				b.has_session = false;
			int vcur = (w.downgraded && p.consumed >= from + 8) ? w.version_after : b.version;
			if (w.err_code == 4 && w.err_ver < vcur && w.err_ver >= 0) {
				b.version = w.err_ver; // C13 trigger: Unsupported-Version report carrying a lower supported version
				p.pending_downgrade = 1;
				p.trigger_ns = sim_now_ns();
				p.expect_immediate_open = true;
				W.ctx.count("probe_downgrade_code4");
			}
		} else if (w.kind == WK_INCOMPLETE && w.why == "closed" && from == 0 && p.consumed == 0 && !x.at_query.has_session && faults_now == 0 &&
			   b.version > 0 && x.bytes.empty()) {
			b.version -= 1; // C13 trigger: cache hung up without answering before any session exists
			p.pending_downgrade = 2;
			p.trigger_ns = sim_now_ns();
			p.expect_immediate_open = true;
			W.ctx.count("probe_downgrade_hangup");
		}
		else if ((x.closes || p.peer_closed) && !x.at_query.has_session && b.version > 0) {
			// the cache hung up before a session existed, after sending something the client could not use as an answer
			// (only a Serial Notify, a fragment, a stream garbled by an interrupted read): the statement neither demands
			// nor forbids the downgrade here
			p.may_downgrade = true;
			W.ctx.count("probe_hangup_after_non_answer");
		}
		if (w.downgraded && p.consumed >= from + 8) { // the client has seen the first header of the connection
			b.version = w.version_after;
			W.ctx.count("probe_downgrade_first_pdu");
		}
		// C14: error report for the violation a correct client detects
		bool writable = p.open && !(p.peer_closed) && x.faults_fired == 0 && !x.scripted_faults;
		if (!reentered && !alloc_failed) // (after an allocation failure the client may never have reached the offending PDU)
			check_error_report(W, p, x, w, view.bytes, writable);
	}
	if (rc == RTR_SUCCESS && w.downgraded)
		W.ctx.count("probe_downgrade_first_pdu");
	if (sim_steps() > W.soft_steps && !W.truncate) {
		W.truncate = true;
		sim_wake(SIM_W_USER, &W);
	}
	check_others_untouched(W, si, allp, alls);
	// C01 (W2): validation on the trie shaped by this conversation agrees with RFC 6811 over the enumerated contents
	{
		PfxModel m;
		m.recs = allp;
		Rng q(sim_mix64((uint64_t)x.id * 7919 + (uint64_t)si));
		std::vector<PfxRec> pool(allp.begin(), allp.end());
		for (int k = 0; k < 6 && !pool.empty(); k++) {
			PfxRec r = pool[q.below(pool.size())];
			int w2 = r.width();
			if (r.len > w2)
				continue;
			int ql = q.chance(400) ? r.len : (int)q.range(r.len, w2);
			u128 rnd = ((u128)q.next() << 64) | q.next();
			u128 addr = PfxRec::mask(r.addr | (r.len < 128 ? (rnd >> r.len) : 0), ql, r.fam);
			uint32_t asn = q.chance(600) ? r.asn : (uint32_t)(64500 + q.below(6));
			lrtr_ip_addr ip;
			to_lrtr_addr(r.fam, addr, &ip);
			enum pfxv_state res;
			if (rtr_mgr_validate(W.conf, asn, &ip, (uint8_t)ql, &res) == PFX_SUCCESS) {
				int want = m.validate(asn, r.fam, addr, ql);
				W.ctx.count("world_validations");
				if ((int)res != want && w.domain_ok && !W.hostile)
					W.ctx.viol("C01", "world-validate", "C01:world:state", "after synchronisation: route /%d AS%u validates as %d, RFC 6811 over the enumerated table says %d",
						   ql, asn, (int)res, want);
			}
		}
	}
	// C09 / C10 (W2): the callback log restricted to this source equals its records
	if (W.plan["cfg"].geti("callbacks", 1)) {
		if (of_src(W.mirror_pfx, si) != ap) {
			W.ctx.viol("C09", "mirror-diverged", std::string("C09:mirror:sync-") + (rc == RTR_SUCCESS ? "ok" : "failed") + (was_reload ? "-reload" : ""),
				   "socket %d after a %s synchronisation: prefix callback log (%zu) differs from the table (%zu)", si,
				   rc == RTR_SUCCESS ? "successful" : "failed", of_src(W.mirror_pfx, si).size(), ap.size());
			for (auto it = W.mirror_pfx.begin(); it != W.mirror_pfx.end();)
				it = it->src == si ? W.mirror_pfx.erase(it) : std::next(it);
			W.mirror_pfx.insert(ap.begin(), ap.end());
		}
		if (of_src(W.mirror_spki, si) != as) {
			W.ctx.viol("C10", "mirror-diverged", std::string("C10:mirror:sync-") + (rc == RTR_SUCCESS ? "ok" : "failed") + (was_reload ? "-reload" : ""),
				   "socket %d after a %s synchronisation: router-key callback log (%zu) differs from the table (%zu)", si,
				   rc == RTR_SUCCESS ? "successful" : "failed", of_src(W.mirror_spki, si).size(), as.size());
			for (auto it = W.mirror_spki.begin(); it != W.mirror_spki.end();)
				it = it->src == si ? W.mirror_spki.erase(it) : std::next(it);
			W.mirror_spki.insert(as.begin(), as.end());
		}
	}
	bool changed_records = !(ap == bp && as == bs);
	W.model_pfx[(size_t)si] = ap;
	W.model_spki[(size_t)si] = as;
	if (W.c06 && changed_records) {
		// another socket's records changed while a reload window is open (or has just closed): readers may see either state of them
		for (auto &wn : W.wins)
			if (wn.si != si && (!wn.done || wn.end + 400 > W.stamp)) {
				std::pair<std::set<PfxRec>, std::set<SpkiRec>> alt;
				for (int o = 0; o < W.n; o++)
					if (o != wn.si) {
						alt.first.insert(W.model_pfx[(size_t)o].begin(), W.model_pfx[(size_t)o].end());
						alt.second.insert(W.model_spki[(size_t)o].begin(), W.model_spki[(size_t)o].end());
					}
				wn.other_alt.push_back(alt);
			}
	}
	if (rc == RTR_SUCCESS || changed_records)
		W.ctx.nontrivial = true;
}

} // namespace

extern "C" int __wrap_rtr_sync(struct rtr_socket *s)
{
	World *W = g_world;
	int si = W ? W->index_of(s) : -1;
	if (si < 0)
		return __real_rtr_sync(s);
	Peer &p = W->peers[(size_t)si];
	p.in_sync = true;
	p.sync_enter_consumed = p.consumed;
	p.sync_faults_before = p.cur_x >= 0 ? p.xs[(size_t)p.cur_x].faults_fired : 0;
	p.cb_add = p.cb_del = 0;
	p.sync_allocfail_before = simalloc_failures();
	int win = -1;
	if (W->c06 && p.cur_x >= 0 && p.xs[(size_t)p.cur_x].qtype == PDU_RESET_QUERY &&
	    (!W->model_pfx[(size_t)si].empty() || !W->model_spki[(size_t)si].empty())) {
		Win6 wn;
		wn.si = si;
		wn.xid = p.xs[(size_t)p.cur_x].id;
		wn.call = p.xs[(size_t)p.cur_x].sync_calls + 1;
		wn.start = ++W->stamp;
		wn.end = 0;
		wn.oldp = W->model_pfx[(size_t)si];
		wn.olds = W->model_spki[(size_t)si];
		wn.newp = p.data;
		if (W->belief[(size_t)si].version >= 1)
			wn.news = p.keys;
		for (int o = 0; o < W->n; o++)
			if (o != si) {
				wn.otherp.insert(W->model_pfx[(size_t)o].begin(), W->model_pfx[(size_t)o].end());
				wn.others.insert(W->model_spki[(size_t)o].begin(), W->model_spki[(size_t)o].end());
			}
		W->wins.push_back(wn);
		win = (int)W->wins.size() - 1;
		W->reload_active = win;
		W->ctx.count("probe_reload_windows");
		W->note("window %d opens: socket %d stamp %llu old %zu/%zu new %zu/%zu other %zu/%zu", win, si, (unsigned long long)wn.start, wn.oldp.size(),
			wn.olds.size(), wn.newp.size(), wn.news.size(), wn.otherp.size(), wn.others.size());
	}
	int rc = __real_rtr_sync(s);
	if (win >= 0) {
		W->wins[(size_t)win].end = ++W->stamp;
		W->wins[(size_t)win].done = true;
		W->wins[(size_t)win].success = rc == RTR_SUCCESS;
		W->note("window %d closes: stamp %llu rc=%d", win, (unsigned long long)W->wins[(size_t)win].end, rc);
		W->reload_active = -1;
		sim_wake(SIM_W_USER, &W->reader_cv); // a few reads after the reload has ended
	}
	sync_exit(*W, si, rc);
	return rc;
}

extern "C" int __wrap_rtr_wait_for_sync(struct rtr_socket *s)
{
	World *W = g_world;
	int si = W ? W->index_of(s) : -1;
	if (si < 0)
		return __real_rtr_wait_for_sync(s);
	Peer &p = W->peers[(size_t)si];
	p.in_wait = true;
	p.hdr_seen_before_wait = p.hdr_seen;
	p.wait_enter_ns = sim_now_ns();
	p.sync_enter_consumed = p.consumed;
	int rc = __real_rtr_wait_for_sync(s);
	p.in_wait = false;
	if (p.consumed >= p.sync_enter_consumed + 8)
		p.hdr_seen = true;
	p.wait_return_ns = sim_now_ns();
	p.wait_returned_success = rc == RTR_SUCCESS;
	// did it consume a well-formed Serial Notify of the negotiated version?
	p.notify_consumed = false;
	if (p.consumed >= p.sync_enter_consumed + 12) {
		const uint8_t *h = &p.in_stream[p.sync_enter_consumed];
		if (h[1] == PDU_SERIAL_NOTIFY && get32(h + 4) == 12 && h[0] == (uint8_t)W->belief[(size_t)si].version && p.hdr_seen_before_wait) {
			if (rc == RTR_SUCCESS)
				p.notify_consumed = true;
			// whatever the function returned: C17 wants the poll "as soon as a Serial Notify arrives"
			p.notify_unanswered = true;
			W->ctx.count("probe_notify_consumed_while_established");
		}
	}
	// a complete header was received during this wait: the rest of that PDU is awaited with the receive timeout, whatever
	// the refresh deadline says (a fragment of a header licenses no delay: the deadline of the wait is absolute)
	if (p.consumed >= p.sync_enter_consumed + 8) {
		p.stray_since_success = true;
		if (rc != RTR_SUCCESS)
			W->ctx.count("probe_stray_pdu_while_established");
	}
	W->ctx.count("wait_calls");
	return rc;
}

// ------------------------------------------------------------------ runner
namespace {

struct TableDigest {
	uint64_t h = 0xcbf29ce484222325ull;
};

uint64_t table_digest(World &W)
{
	uint64_t h = 0xcbf29ce484222325ull;
	for (auto &r : actual_pfx_all(W)) {
		digest(h, (uint64_t)(r.addr >> 64));
		digest(h, (uint64_t)r.addr);
		digest(h, ((uint64_t)r.fam << 48) | ((uint64_t)r.len << 40) | ((uint64_t)r.maxlen << 32) | r.asn);
		digest(h, (uint64_t)r.src);
	}
	for (auto &r : actual_spki_all(W)) {
		digest(h, r.asn);
		digest(h, r.ski[0] | ((uint64_t)r.spki[0] << 8) | ((uint64_t)r.src << 16));
	}
	return h;
}

void final_checks_after_stop(World &W)
{
	simalloc_pause(1);
	struct End {
		~End() { simalloc_pause(0); }
	} end_guard;
	std::set<PfxRec> allp = actual_pfx_all(W);
	std::set<SpkiRec> alls = actual_spki_all(W);
	W.ctx.count("stop_audits");
	if (!allp.empty() || !alls.empty())
		W.ctx.viol("C07", "records-after-stop", "C07:stop:records-remain:mgr-stop", "after rtr_mgr_stop %zu prefix and %zu router-key records remain",
			   allp.size(), alls.size());
	if (W.plan["cfg"].geti("callbacks", 1)) {
		if (W.mirror_pfx != allp)
			W.ctx.viol("C09", "mirror-diverged", "C09:mirror:after-stop", "after rtr_mgr_stop the prefix callback log holds %zu records, the table %zu",
				   W.mirror_pfx.size(), allp.size());
		if (W.mirror_spki != alls)
			W.ctx.viol("C10", "mirror-diverged", "C10:mirror:after-stop", "after rtr_mgr_stop the router-key callback log holds %zu records, the table %zu",
				   W.mirror_spki.size(), alls.size());
	}
}

// ---- C06: reader tasks and the old-or-new oracle
struct ReaderArg {
	int id;
	uint64_t seed;
};

void *reader6_task(void *arg)
{
	World &W = *g_world;
	ReaderArg *ra = (ReaderArg *)arg;
	Rng r(ra->seed);
	for (;;) {
		if (W.readers_stop) // (checked before blocking: a wake-up sent while this task was running must not be lost)
			break;
		(void)sim_block(SIM_W_USER, &W.reader_cv, SIM_NO_DEADLINE, 0);
		if (W.readers_stop)
			break;
		for (unsigned k = 0; k < W.reads_per_wake && !W.readers_stop; k++) {
			// probes come from the records around the most recent reload
			if (W.wins.empty())
				break;
			const Win6 &wn = W.wins.back();
			Read6 rd;
			rd.reader = ra->id;
			rd.rc = 0;
			rd.state = -1;
			std::vector<PfxRec> pool(wn.oldp.begin(), wn.oldp.end());
			pool.insert(pool.end(), wn.newp.begin(), wn.newp.end());
			std::vector<SpkiRec> kpool(wn.olds.begin(), wn.olds.end());
			kpool.insert(kpool.end(), wn.news.begin(), wn.news.end());
			rd.spki = !kpool.empty() && (pool.empty() || r.chance(300));
			if (!rd.spki && pool.empty())
				break;
			if (!rd.spki) {
				PfxRec c = pool[r.below(pool.size())];
				rd.q = c;
				if (r.chance(300) && c.len < c.width())
					rd.q.len = (int)r.range(c.len, c.maxlen < c.width() ? c.maxlen + 1 : c.width());
				if (rd.q.len > c.width())
					rd.q.len = c.width();
				if (r.chance(150))
					rd.q.asn = (uint32_t)(64500 + r.below(6));
				lrtr_ip_addr ip;
				to_lrtr_addr(rd.q.fam, rd.q.addr, &ip);
				enum pfxv_state res = BGP_PFXV_STATE_NOT_FOUND;
				rd.inv = ++W.stamp;
				rd.rc = rtr_mgr_validate(W.conf, rd.q.asn, &ip, (uint8_t)rd.q.len, &res);
				rd.ret = ++W.stamp;
				rd.state = (int)res;
			} else {
				rd.k = kpool[r.below(kpool.size())];
				spki_record *res = nullptr;
				unsigned n = 0;
				rd.inv = ++W.stamp;
				rd.rc = rtr_mgr_get_spki(W.conf, rd.k.asn, rd.k.ski.data(), &res, &n);
				rd.ret = ++W.stamp;
				for (unsigned i = 0; i < n; i++)
					rd.keys.insert(from_spki_record(&res[i], W.sm));
				if (res)
					lrtr_free(res);
			}
			W.reads6.push_back(rd);
			W.ctx.count("reader_reads");
		}
	}
	return nullptr;
}

void evaluate_reads6(World &W)
{
	// per reader and table: has an answer that only the new set explains been seen in window w?
	std::map<std::tuple<int, int, int>, bool> seen_new;
	for (auto &rd : W.reads6) {
		// the window this read overlaps, or else the last window that ended before it
		int over = -1, before = -1;
		for (size_t i = 0; i < W.wins.size(); i++) {
			const Win6 &wn = W.wins[i];
			if (!wn.done)
				continue;
			if (rd.ret > wn.start && rd.inv < wn.end)
				over = (int)i;
			else if (wn.end <= rd.inv)
				before = (int)i;
		}
		int wi = over >= 0 ? over : before;
		if (wi < 0)
			continue;
		const Win6 &wn = W.wins[(size_t)wi];
		// a later window of the same socket that has started but not finished makes "before" stale
		bool stale = false;
		for (size_t i = (size_t)wi + 1; i < W.wins.size(); i++)
			if (W.wins[i].start < rd.ret)
				stale = true;
		if (stale && over < 0)
			continue;
		if (!wn.other_alt.empty()) {
			W.ctx.count("reads_not_judged_other_socket_changed");
			continue; // the other cache's records were not constant around this reload: not the situation C06 describes
		}
		auto answer = [&](bool newer) {
			if (!rd.spki) {
				PfxModel m;
				m.recs = wn.otherp;
				const std::set<PfxRec> &mine = newer ? wn.newp : wn.oldp;
				m.recs.insert(mine.begin(), mine.end());
				return std::make_pair(m.validate(rd.q.asn, rd.q.fam, rd.q.addr, rd.q.len), std::set<SpkiRec>());
			}
			SpkiModel m;
			m.recs = wn.others;
			const std::set<SpkiRec> &mine = newer ? wn.news : wn.olds;
			m.recs.insert(mine.begin(), mine.end());
			return std::make_pair(-1, m.get_all(rd.k.asn, rd.k.ski));
		};
		auto a_old = answer(false), a_new = answer(true);
		auto got = std::make_pair(rd.spki ? -1 : rd.state, rd.keys);
		bool is_old = got == a_old, is_new = got == a_new;
		W.ctx.count(over >= 0 ? "reads_during_reload" : "reads_after_reload");
		if (a_old != a_new)
			W.ctx.count(over >= 0 ? "reads_during_reload_discriminating" : "reads_after_reload_discriminating");
		const char *tbl = rd.spki ? "router-key" : "prefix";
		if (over >= 0) {
			bool new_allowed = wn.success;
			if (!(is_old || (is_new && new_allowed))) {
				W.ctx.viol("C06", std::string("neither-old-nor-new-") + tbl, std::string("C06:reader:") + tbl + ":neither-old-nor-new",
					   "reader %d: %s lookup during a full reload of socket %d returned an answer that neither the complete old nor the complete new "
					   "data set explains (old says %d/%zu, new says %d/%zu, got %d/%zu)",
					   rd.reader, tbl, wn.si, a_old.first, a_old.second.size(), a_new.first, a_new.second.size(), got.first, got.second.size());
				W.note("bad read: window %d (%llu..%llu success=%d) read %llu..%llu q=%s", wi, (unsigned long long)wn.start, (unsigned long long)wn.end,
				       (int)wn.success, (unsigned long long)rd.inv, (unsigned long long)rd.ret, rd.q.str().c_str());
				continue;
			}
			auto key = std::make_tuple(rd.reader, (int)rd.spki, wi);
			if (a_old != a_new) {
				if (is_new && !is_old)
					seen_new[key] = true;
				else if (is_old && !is_new && seen_new[key])
					W.ctx.viol("C06", std::string("new-then-old-") + tbl, std::string("C06:reader:") + tbl + ":new-then-old",
						   "reader %d observed the new %s data of socket %d and afterwards the old one", rd.reader, tbl, wn.si);
			}
		} else {
			bool want_new = wn.success;
			if (!(want_new ? is_new : is_old))
				W.ctx.viol("C06", std::string("wrong-after-reload-") + tbl, std::string("C06:reader:") + tbl + (want_new ? ":old-after-success" : ":new-after-failure"),
					   "reader %d: %s lookup after a %s reload of socket %d does not return the %s data set's answer", rd.reader, tbl,
					   want_new ? "successful" : "failed", wn.si, want_new ? "new" : "old");
		}
	}
}

void run_world(const J &plan, RunCtx &ctx)
{
	World W(plan, ctx);
	g_world = &W;
	g_race_prop = "C06";
	const J &cfg = plan["cfg"];
	const J &caches = plan["caches"];
	W.n = (int)caches.size();
	W.focus = plan.gets("focus");
	W.debug = plan.geti("debug", 0) != 0;
	ctx.keep_notes = W.debug;
	W.soft_steps = (uint64_t)plan.geti("soft_steps", 250000);
	W.max_queries = (uint64_t)plan["end"].geti("max_queries", 0);
	W.hostile = plan.geti("hostile", 0) != 0;
	W.chunk = Rng(plan["chunk"]["seed"].u64(1));
	std::string cm = plan["chunk"].gets("mode", "all");
	W.chunk_mode = cm == "one" ? 1 : cm == "rand" ? 2 : 0;
	W.lat = Rng(plan["lat"]["seed"].u64(1));
	W.lat_min_ns = (uint64_t)plan["lat"].geti("min_ms", 1) * 1000000ull;
	W.lat_jit_ns = (uint64_t)plan["lat"].geti("jitter_ms", 5) * 1000000ull;
	W.socks.resize((size_t)W.n);
	W.trs.resize((size_t)W.n);
	W.peers.resize((size_t)W.n);
	W.belief.resize((size_t)W.n);
	W.model_pfx.resize((size_t)W.n);
	W.model_spki.resize((size_t)W.n);
	memset(W.socks.data(), 0, sizeof(rtr_socket) * (size_t)W.n);
	uint32_t refresh = (uint32_t)cfg.geti("refresh", 3600), expire = (uint32_t)cfg.geti("expire", 7200), retry = (uint32_t)cfg.geti("retry", 600);
	for (int i = 0; i < W.n; i++) {
		Peer &p = W.peers[(size_t)i];
		p.si = i;
		cache_init(W, p, caches[(size_t)i]);
		tr_socket &t = W.trs[(size_t)i];
		t.socket = &p;
		t.open_fp = tr_open_sim;
		t.close_fp = tr_close_sim;
		t.free_fp = tr_free_sim;
		t.send_fp = tr_send_sim;
		t.recv_fp = tr_recv_sim;
		t.ident_fp = tr_ident_sim;
		W.socks[(size_t)i].tr_socket = &t;
		W.sm.ptr.push_back(&W.socks[(size_t)i]);
		Belief &b = W.belief[(size_t)i];
		b.refresh = refresh;
		b.retry = retry;
		b.expire = expire;
	}
	// groups
	// (shrunk plans are normalised: a socket belongs to one group, preferences are distinct, no empty group)
	const J &jg = plan["groups"];
	std::vector<rtr_mgr_group> groups;
	std::vector<std::vector<rtr_socket *>> gsocks;
	gsocks.reserve(jg.size() + 1);
	{
		std::set<int> used_s, used_p;
		for (size_t g = 0; g < jg.size(); g++) {
			std::vector<rtr_socket *> ss;
			const J &js = jg[g]["sockets"];
			for (size_t k = 0; k < js.size(); k++) {
				int si = (int)((uint64_t)js[k].num() % (uint64_t)W.n);
				if (used_s.insert(si).second)
					ss.push_back(&W.socks[(size_t)si]);
			}
			int pref = (int)(jg[g].geti("pref", (int64_t)g + 1) & 255);
			if (ss.empty() || !used_p.insert(pref).second)
				continue;
			gsocks.push_back(ss);
			rtr_mgr_group gr;
			memset(&gr, 0, sizeof(gr));
			gr.sockets = gsocks.back().data();
			gr.sockets_len = (unsigned)gsocks.back().size();
			gr.preference = (uint8_t)pref;
			gr.status = RTR_MGR_CLOSED;
			groups.push_back(gr);
		}
	}
	if (groups.empty()) {
		ctx.count("plan_without_groups");
		g_world = nullptr;
		return;
	}
	bool cbs = cfg.geti("callbacks", 1) != 0;
	// ---- C15 / C17: configurations that initialisation must reject (fresh structures each time)
	const J &cases = plan["init_cases"];
	for (size_t ci = 0; ci < cases.size(); ci++) {
		const J &cs = cases[ci];
		std::string kind = cs.gets("kind");
		std::vector<rtr_socket> ts(2);
		std::vector<tr_socket> tt(2);
		memset(ts.data(), 0, sizeof(rtr_socket) * 2);
		Peer dummy;
		for (int k = 0; k < 2; k++) {
			tt[(size_t)k].socket = &dummy;
			tt[(size_t)k].free_fp = tr_free_sim;
			ts[(size_t)k].tr_socket = &tt[(size_t)k];
		}
		rtr_socket *sp[2] = {&ts[0], &ts[1]};
		rtr_mgr_group gg[3];
		memset(gg, 0, sizeof(gg));
		unsigned ng = 2;
		gg[0].sockets = &sp[0];
		gg[0].sockets_len = 1;
		gg[0].preference = (uint8_t)cs.geti("p0", 1);
		gg[1].sockets = &sp[1];
		gg[1].sockets_len = 1;
		gg[1].preference = (uint8_t)cs.geti("p1", 2);
		unsigned r = refresh, e = expire, t = retry;
		bool must_reject = true;
		if (kind == "empty")
			ng = 0;
		else if (kind == "nosock")
			gg[(size_t)(cs.geti("which", 0) & 1)].sockets_len = 0;
		else if (kind == "duppref")
			gg[1].preference = gg[0].preference;
		else if (kind == "iv") {
			r = (unsigned)cs.geti("refresh", refresh);
			e = (unsigned)cs.geti("expire", expire);
			t = (unsigned)cs.geti("retry", retry);
			must_reject = !(r >= 1 && r <= 86400 && e >= 600 && e <= 172800 && t >= 1 && t <= 7200);
		} else if (kind == "one") {
			ng = 1;
			must_reject = false;
		}
		rtr_mgr_config *c2 = (rtr_mgr_config *)(uintptr_t)0x1;
		uint64_t ff = simalloc_foreign_free(), lf = simalloc_libc_free_of_sim_block(), live = simalloc_live_blocks();
		int rc2 = rtr_mgr_init(&c2, gg, ng, r, e, t, NULL, NULL, NULL, NULL);
		ctx.count("init_cases");
		const char *prop = kind == "iv" ? "C17" : "C15";
		if (must_reject) {
			if (rc2 == RTR_SUCCESS || c2 != NULL)
				ctx.viol(prop, "init-accepts-invalid", std::string(prop) + ":init:accepted:" + kind, "rtr_mgr_init accepted an invalid configuration (%s: %s) rc=%d",
					 kind.c_str(), cs.dump().c_str(), rc2);
			if (simalloc_foreign_free() != ff || simalloc_libc_free_of_sim_block() != lf)
				ctx.viol(prop, "init-error-path-bad-free", std::string(prop) + ":init:error-path-frees-uninitialised-pointer:" + kind,
					 "rejecting configuration '%s' released a pointer that was never allocated", kind.c_str());
			if (simalloc_live_blocks() != live)
				ctx.viol(prop, "init-error-path-leak", std::string(prop) + ":init:error-path-leak:" + kind, "rejecting configuration '%s' leaked %lld blocks",
					 kind.c_str(), (long long)simalloc_live_blocks() - (long long)live);
			if (rc2 == RTR_SUCCESS && c2)
				rtr_mgr_free(c2);
		} else {
			if (rc2 != RTR_SUCCESS || !c2)
				ctx.viol(prop, "init-rejects-valid", std::string(prop) + ":init:rejected-valid:" + kind, "rtr_mgr_init rejected a valid configuration (%s) rc=%d",
					 cs.dump().c_str(), rc2);
			else {
				if (ts[0].refresh_interval != r || ts[0].expire_interval != e || ts[0].retry_interval != t)
					ctx.viol("C17", "init-intervals", "C17:init:intervals-not-stored", "rtr_mgr_init(%u,%u,%u) left the socket with %u/%u/%u", r, e, t,
						 ts[0].refresh_interval, ts[0].expire_interval, ts[0].retry_interval);
				rtr_mgr_free(c2);
			}
		}
	}
	for (size_t g = 0; g < groups.size(); g++) {
		GInfo gi;
		gi.pref = groups[g].preference;
		for (auto *s : gsocks[g])
			gi.socks.push_back(W.index_of(s));
		W.ginfo.push_back(gi);
	}
	int rc = rtr_mgr_init(&W.conf, groups.data(), (unsigned)groups.size(), refresh, expire, retry, cbs ? pfx_cb : NULL, cbs ? spki_cb : NULL, status_cb, NULL);
	if (rc != RTR_SUCCESS || !W.conf) {
		ctx.count("mgr_init_failed");
		g_world = nullptr;
		return;
	}
	W.iv_mode = (int)cfg.geti("iv_mode", RTR_INTERVAL_MODE_DEFAULT_MIN_MAX);
	for (int i = 0; i < W.n; i++)
		rtr_set_interval_mode(&W.socks[(size_t)i], (enum rtr_interval_mode)W.iv_mode);
	if (plan.geti("serialise_callbacks", W.focus == "C15"))
		for (int i = 0; i < W.n; i++)
			serialise_callbacks(W, i);
	check_group_order(W, "after init");
	W.main_task = sim_self();
	std::vector<ReaderArg> rargs;
	std::vector<int> rtasks;
	if (plan.has("c06")) {
		W.c06 = true;
		W.reads_per_wake = (unsigned)plan["c06"].geti("reads_per_wake", 40);
		int nr = (int)plan["c06"].geti("readers", 2);
		rargs.resize((size_t)nr);
		sim_nopreempt_begin();
		for (int i = 0; i < nr; i++) {
			rargs[(size_t)i].id = i;
			rargs[(size_t)i].seed = seed_label(plan["seed"].u64(), "reader") + (uint64_t)i;
			char nm[16];
			snprintf(nm, sizeof(nm), "reader%d", i);
			rtasks.push_back(sim_spawn(nm, reader6_task, &rargs[(size_t)i]));
		}
		sim_nopreempt_end();
	}
	rtr_mgr_start(W.conf);
	// storage for groups added at run time (the manager keeps the sockets pointer)
	std::vector<std::vector<rtr_socket *>> added_socks;
	added_socks.reserve(16);
	// operator ops and end condition
	const J &oper = plan["oper"];
	uint64_t t0 = sim_now_ns();
	size_t oi = 0;
	const J &endc = plan["end"];
	uint64_t max_s = (uint64_t)endc.geti("max_s", 3600);
	bool want_converge = endc.gets("mode", "time") == "converge";
	uint64_t hard_end = t0 + max_s * SIM_NS;
	bool stopped = false;
	uint64_t last_op_ns = t0;
	// events that fall on the very instant the run ends are ordered by the scheduler, not by the byte stream:
	// the digests used for metamorphic comparison stop just before it
	if (!want_converge)
		W.digest_until = hard_end;
	std::set<int> primary; // sockets of the most preferred group
	{
		size_t best = 0;
		for (size_t g = 1; g < groups.size(); g++)
			if (groups[g].preference < groups[best].preference)
				best = g;
		for (auto *s : gsocks[best])
			primary.insert(W.index_of(s));
	}
	for (;;) {
		uint64_t now = sim_now_ns();
		uint64_t next = hard_end;
		if (oi < oper.size() && oper[oi].has("on") && !W.trig_fired) {
			// wait for the event (or the end of the run)
			if (W.trig_ev.empty()) {
				const J &on = oper[oi]["on"];
				W.trig_ev = on.gets("ev", "pfx_cb");
				W.trig_sock = (int)on.geti("sock", -1);
				W.trig_n = on.geti("n", 1);
			}
			if (now >= hard_end)
				break;
			if (W.truncate) {
				ctx.count("runs_truncated_by_step_budget");
				break;
			}
			(void)sim_block(SIM_W_USER, &W, hard_end, 0);
			continue;
		}
		if (oi < oper.size()) {
			uint64_t t = oper[oi].has("on")	       ? now
				     : oper[oi].has("delay_ms") ? last_op_ns + (uint64_t)oper[oi].geti("delay_ms") * 1000000ull
								: t0 + (uint64_t)oper[oi].geti("at_ms") * 1000000ull;
			if (oper[oi].has("on")) {
				W.trig_ev.clear();
				W.trig_fired = false;
			}
			if (t <= now) {
				const J &op = oper[oi++];
				last_op_ns = now;
				std::string k = op.gets("op");
				ctx.count("oper_" + k);
				sim_log(EV_USER, 7, oi);
				if (k == "stop") {
					W.oper_busy = true;
					g_teardown_only = true; /* limits reached while an operator call is blocked inside the library are not findings */
					// (rtr_stop joins the socket thread, which may sit in a non-cancellable retry sleep of any length the
					// cache was allowed to set; sockets stopped later keep polling meanwhile: step / time limits reached while
					// an operator stop is blocked are not findings)
					g_teardown_only = true;
					rtr_mgr_stop(W.conf);
					g_teardown_only = false;
					for (int again = 0; again < 8; again++) {
						bool running = false;
						for (int i = 0; i < W.n; i++)
							if (W.socks[(size_t)i].thread_id != 0)
								running = true;
						if (!running)
							break;
						ctx.count("note_group_restarted_during_mgr_stop");
						rtr_mgr_stop(W.conf);
					}
					W.oper_busy = false;
					g_teardown_only = false;
					for (auto &g : W.ginfo)
						g.status = RTR_MGR_CLOSED;
					W.gpend.clear();
					for (int i = 0; i < W.n; i++)
						if (W.peers[(size_t)i].started)
							check_stopped_socket(W, i, "mgr-stop");
					final_checks_after_stop(W);
					stopped = true;
				} else if (k == "start") {
					if (stopped) {
						rtr_mgr_start(W.conf);
						stopped = false;
					}
				} else if (k == "addgroup") {
					int pref = (int)(op.geti("pref") & 255);
					std::vector<rtr_socket *> ss;
					std::vector<int> idx;
					const J &js = op["sockets"];
					bool usable = js.size() > 0;
					for (size_t q = 0; q < js.size(); q++) {
						int si = (int)((uint64_t)js[q].num() % (uint64_t)W.n);
						for (auto &g : W.ginfo)
							for (int u : g.socks)
								if (u == si)
									usable = false; // a socket belongs to one group only (also after removal: its transport is freed)
						ss.push_back(&W.socks[(size_t)si]);
						idx.push_back(si);
					}
					if (usable && added_socks.size() < 16) {
						added_socks.push_back(ss);
						rtr_mgr_group ng;
						memset(&ng, 0, sizeof(ng));
						ng.sockets = added_socks.back().data();
						ng.sockets_len = (unsigned)ss.size();
						ng.preference = (uint8_t)pref;
						bool dup = ginfo_of(W, pref) != nullptr;
						W.oper_busy = true;
					g_teardown_only = true; /* limits reached while an operator call is blocked inside the library are not findings */
						int r2 = rtr_mgr_add_group(W.conf, &ng);
						W.oper_busy = false;
					g_teardown_only = false;
						if (dup && r2 == RTR_SUCCESS)
							ctx.viol("C15", "add-accepts-duplicate-preference", "C15:add:duplicate-preference-accepted",
								 "rtr_mgr_add_group accepted preference %d which is already in use", pref);
						if (!dup && r2 != RTR_SUCCESS)
							ctx.count("note_add_group_failed_for_other_reason"); // e.g. intervals inherited from a socket are out of range
						if (r2 == RTR_SUCCESS && !dup) {
							GInfo gi;
							gi.pref = pref;
							gi.socks = idx;
							W.ginfo.push_back(gi);
							for (int si : idx) {
								Belief &b = W.belief[(size_t)si];
								b.refresh = W.socks[(size_t)si].refresh_interval;
								b.retry = W.socks[(size_t)si].retry_interval;
								b.expire = W.socks[(size_t)si].expire_interval;
								rtr_set_interval_mode(&W.socks[(size_t)si], (enum rtr_interval_mode)W.iv_mode);
								if (plan.geti("serialise_callbacks", W.focus == "C15"))
									serialise_callbacks(W, si);
							}
							ctx.count("probe_group_added");
						} else
							ctx.count("probe_group_add_rejected");
						check_group_order(W, "after add_group");
					}
				} else if (k == "rmgroup") {
					int pref = (int)(op.geti("pref") & 255);
					GInfo *g = ginfo_of(W, pref);
					size_t live = 0;
					for (auto &x : W.ginfo)
						live += !x.removed;
					W.oper_busy = true;
					g_teardown_only = true; /* limits reached while an operator call is blocked inside the library are not findings */
					if (g)
						g->removing = true;
					g_teardown_only = true;
					int r2 = rtr_mgr_remove_group(W.conf, (unsigned)pref);
					g_teardown_only = false;
					if (g)
						g->removing = false;
					W.oper_busy = false;
					g_teardown_only = false;
					if (live <= 1 && r2 == RTR_SUCCESS)
						ctx.viol("C15", "last-group-removed", "C15:remove:last-group-removed", "rtr_mgr_remove_group removed the last remaining group (%d)", pref);
					else if (live > 1 && g && r2 != RTR_SUCCESS)
						ctx.count("note_remove_group_failed_for_other_reason");
					else if (!g && r2 == RTR_SUCCESS)
						ctx.viol("C15", "remove-unknown", "C15:remove:unknown-preference-accepted", "rtr_mgr_remove_group(%d) succeeded for an unknown preference", pref);
					if (r2 == RTR_SUCCESS && g) {
						for (int si : g->socks)
							if (W.peers[(size_t)si].started)
								check_stopped_socket(W, si, "group-removed");
						g->removed = true;
						ctx.count("probe_group_removed");
						// whenever the best group is closed it has to be started
						LibGroups L = lib_groups(W);
						if (!L.v.empty() && L.v[0].second == RTR_MGR_CLOSED && !stopped)
							ctx.viol("C15", "best-group-not-started-after-remove", "C15:remove:best-group-left-closed",
								 "after removing group %d the most preferred group %d is still closed", pref, L.v[0].first);
					} else
						ctx.count("probe_group_remove_rejected");
					check_group_order(W, "after remove_group");
				} else if (k == "ivmode") {
					W.iv_mode = (int)op.geti("mode", 2) & 3;
					for (int i = 0; i < W.n; i++)
						rtr_set_interval_mode(&W.socks[(size_t)i], (enum rtr_interval_mode)W.iv_mode);
				}
				continue;
			}
			if (t < next)
				next = t;
		}
		if (now >= hard_end)
			break;
		if (W.truncate) {
			ctx.count("runs_truncated_by_step_budget");
			break;
		}
		if (want_converge && oi >= oper.size()) {
			// C08: bounded liveness after the fault phase
			bool all_clean = true, all_conv = true;
			uint64_t deadline = 0;
			for (int i = 0; i < W.n; i++) {
				Peer &p = W.peers[(size_t)i];
				if (!p.started) {
					// sockets of the most preferred group must take part
					if (primary.count(i))
						all_clean = false;
					continue;
				}
				if (!p.clean) {
					all_clean = false;
					continue;
				}
				const Belief &b = W.belief[(size_t)i];
				uint64_t bound = ((uint64_t)b.refresh + b.expire + 4ull * b.retry + 360ull) * SIM_NS;
				// intervals may still be the larger configured ones
				uint64_t bound2 = ((uint64_t)refresh + expire + 4ull * retry + 360ull) * SIM_NS;
				if (bound2 > bound)
					bound = bound2;
				if (!p.converged) {
					all_conv = false;
					if (p.t_clean + bound > deadline)
						deadline = p.t_clean + bound;
					if (now > p.t_clean + bound && p.tainted) {
						ctx.count("c08_not_judged_dishonest_history");
						p.converged = true;
					} else if (now > p.t_clean + bound) {
						ctx.viol("C08", "no-reconvergence", "C08:liveness:not-converged",
							 "socket %d: %llu s after the cache started answering correctly again the client is in state %d with %zu/%zu prefix "
							 "records of that cache (cache has %zu) and %zu router keys (cache has %zu, version %d) - bound was %llu s",
							 i, (unsigned long long)((now - p.t_clean) / SIM_NS), (int)W.socks[(size_t)i].state,
							 of_src(actual_pfx_all(W), i).size(), W.model_pfx[(size_t)i].size(), p.data.size(),
							 of_src(actual_spki_all(W), i).size(), p.keys.size(), b.version, (unsigned long long)(bound / SIM_NS));
						p.converged = true; // report once
					}
				}
			}
			if (all_clean && all_conv) {
				ctx.count("probe_converged_runs");
				break;
			}
			if (deadline && deadline + SIM_NS < next)
				next = deadline + SIM_NS;
			else if (!deadline && !all_clean && now + 600 * SIM_NS < next)
				next = now + 600 * SIM_NS;
		}
		(void)sim_block(SIM_W_USER, &W, next, 0);
	}
	if (W.c06) {
		W.readers_stop = true;
		sim_wake(SIM_W_USER, &W.reader_cv);
		for (int t : rtasks)
			sim_join_task(t);
		evaluate_reads6(W);
	}
	ctx.extra["digests"]["tables"] = hex64(W.tables_cut ? W.dig_tables_cut : table_digest(W));
	ctx.extra["digests"]["states"] = hex64(W.dig_states);
	ctx.extra["digests"]["sent"] = hex64(W.dig_sent);
	ctx.count("group_consequences_unfinished_at_end", W.gpend.size()); // their threads are still inside the failover action
	W.gpend.clear();
	if (!stopped) {
		W.oper_busy = true;
					g_teardown_only = true; /* limits reached while an operator call is blocked inside the library are not findings */
		g_teardown_only = true;
		rtr_mgr_stop(W.conf);
		g_teardown_only = false;
		// A socket of a group that is being stopped can, in its last error callback, restart a group that
		// rtr_mgr_stop has already passed (observed; a defect outside the listed properties, see DESIGN §17).
		// The harness must not free the manager under a running thread: stop again until nothing runs.
		for (int again = 0; again < 8; again++) {
			bool running = false;
			for (int i = 0; i < W.n; i++)
				if (W.socks[(size_t)i].thread_id != 0)
					running = true;
			if (!running)
				break;
			ctx.count("note_group_restarted_during_mgr_stop");
			rtr_mgr_stop(W.conf);
		}
		for (int i = 0; i < W.n; i++)
			if (W.peers[(size_t)i].started)
				check_stopped_socket(W, i, "mgr-stop");
		final_checks_after_stop(W);
	}
	{
		// allocations per scripted exchange of cache 0 (for the k-th-allocation-fails sweep of C18)
		J sites = J::arr();
		const Peer &p0 = W.peers[0];
		for (size_t i = 0; i < p0.xs.size(); i++) {
			if (p0.xs[i].script_index < 0)
				continue;
			uint64_t end = i + 1 < p0.xs.size() ? p0.xs[i + 1].alloc_at_query : simalloc_calls();
			J s = J::arr();
			s.push(p0.xs[i].script_index);
			s.push((long long)(end - p0.xs[i].alloc_at_query));
			sites.push(s);
		}
		ctx.extra["alloc_sites"] = sites;
		// transport calls / PDUs / bytes per scripted exchange of cache 0 (for the single-fault sweep of C03 / C08)
		J fsites = J::arr();
		for (size_t i = 0; i < p0.xs.size(); i++) {
			const Exchange &x = p0.xs[i];
			if (x.script_index < 0)
				continue;
			size_t npdu = 0, pos = 0;
			while (pos + 8 <= x.bytes.size()) {
				uint32_t l = get32(&x.bytes[pos + 4]);
				if (l < 8 || pos + l > x.bytes.size())
					break;
				pos += l;
				npdu++;
			}
			J s = J::arr();
			s.push(x.script_index);
			s.push((long long)x.recv_calls_used);
			s.push((long long)npdu);
			s.push((long long)x.bytes.size());
			fsites.push(s);
		}
		ctx.extra["fault_sites"] = fsites;
	}
	uint64_t nx = 0;
	for (auto &p : W.peers)
		nx += p.xs.size();
	ctx.counters["exchanges"] = nx;
	if (plan.geti("debug", 0))
		for (auto &p : W.peers) {
			char b[256];
			snprintf(b, sizeof(b), "peer %d started=%d clean=%d conv=%d xi=%zu/%zu oi=%zu/%zu pend=%zu state=%d data=%zu model=%zu ver=%d nodata=%d", p.si, p.started, p.clean,
				 p.converged, p.xi, p.script.size(), p.oi, p.opens.size(), p.pending.size(), (int)W.socks[(size_t)p.si].state, p.data.size(),
				 W.model_pfx[(size_t)p.si].size(), W.belief[(size_t)p.si].version, p.nodata);
			ctx.notes.push_back(b);
		}
	rtr_mgr_free(W.conf);
	g_world = nullptr;
}

} // namespace

extern const Scenario scn_world = {"world", gen_world, run_world};
