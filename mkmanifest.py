#!/usr/bin/env python3
"""Regenerate MANIFEST.json from props.py (claimed checks) and the fixed not-applicable reasons."""
import json
import os
import sys

VERIF = os.path.dirname(os.path.abspath(__file__))
sys.path.insert(0, VERIF)
from props import PROPS  # noqa: E402
from manifest_text import TEXT, NA  # noqa: E402

props = [json.loads(l) for l in open(os.path.join(VERIF, "properties.jsonl"))]
checks = []
na = []
for p in props:
    pid = p["id"]
    if pid in PROPS:
        t = TEXT[pid]
        checks.append({
            "property_id": pid,
            "quick_cmd": "./check %s --tier quick" % pid,
            "thorough_cmd": "./check %s --tier thorough" % pid,
            "evidence_file": "evidence/%s.json" % pid,
            "replay_cmd_template": "./check %s --replay {path}" % pid,
            "engine": "simcheck",
            "level_claimed": {"category": PROPS[pid]["level"], "text": t["text"], "design_ref": t["design_ref"]},
            "level_note": t["note"],
            "technique": t["technique"],
        })
    else:
        na.append({"property_id": pid, "reason": NA.get(pid, "check not built yet (bring-up in progress, DESIGN §16)")})

m = {
    "version": 1,
    "setup_cmd": "python3 build.py asan tsan",
    "hooks": {
        "guard": "RTRLIB_VERIF",
        "enable": "none needed: the simulator reaches every seam from outside (struct tr_socket function pointers, "
                  "lrtr_set_alloc_functions, -Wl,--wrap for pthread_*/sleep/clock_gettime/lrtr_dbg/free/rtr_sync, "
                  "-fsanitize-coverage=trace-pc-guard for preemption); no guarded code exists in /repo",
        "baseline_off_cmd": "cmake --build /repo/_build && ctest --test-dir /repo/_build -j8 --timeout 900",
        "source_commits": [],
        "add_only": True,
    },
    "engines": [{
        "name": "simcheck",
        "path": "check",
        "serves_properties": sorted(PROPS.keys()),
        "kind_free_text": "deterministic simulation with fault injection: real rtrlib code on real threads under a seeded baton "
                          "scheduler, simulated clock/transport/cache/allocator, reference-model oracles, JSON plans with ddmin "
                          "shrinking and replay files",
    }],
    "checks": checks,
    "not_applicable": na,
    "notes": "Fixes of genuine defects are 'fix:' commits in /repo, listed in known_findings.json as status=fixed. "
             "See DESIGN.md for which check catches which seeded change.",
}
with open(os.path.join(VERIF, "MANIFEST.json"), "w") as fh:
    json.dump(m, fh, indent=1)
print("checks:", [c["property_id"] for c in checks])
print("not_applicable:", [n["property_id"] for n in na])
