#!/bin/bash
# soak: every quick check under several seeds; prints one line per (property, seed)
cd "$(dirname "$0")"
python3 build.py asan tsan >/dev/null || exit 2
for s in "$@"; do
  for p in C01 C02 C03 C04 C05 C06 C07 C08 C09 C10 C13 C14 C15 C16 C17 C18; do
    out=$(VERIF_SEED=$s VERIF_OUT=/tmp/soak-out-$$ ./check $p --tier quick 2>&1 | grep -E "VIOLATION|OK |MACH|^  C" | cut -c1-220 | head -3 | tr '\n' '|')
    echo "seed=$s $p $out"
  done
done
