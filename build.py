#!/usr/bin/env python3
"""Build the simulator binary from /repo's CURRENT working tree + /verif harness sources.

Objects live in /verif/build/<variant>-<hash>/ where <hash> covers every input file and the
flags, so a check can never run against stale library objects (DESIGN §11).
"""
import concurrent.futures
import hashlib
import os
import shutil
import subprocess
import sys

REPO = os.environ.get("VERIF_REPO", "/repo")
VERIF = os.path.dirname(os.path.abspath(__file__))
BUILD = os.path.join(VERIF, "build")

LIB_SRC = [
    "rtrlib/rtr_mgr.c", "rtrlib/lib/utils.c", "rtrlib/lib/alloc_utils.c", "rtrlib/lib/convert_byte_order.c",
    "rtrlib/lib/ip.c", "rtrlib/lib/ipv4.c", "rtrlib/lib/ipv6.c", "rtrlib/lib/log.c",
    "rtrlib/pfx/trie/trie.c", "rtrlib/pfx/trie/trie-pfx.c", "rtrlib/transport/transport.c",
    "rtrlib/rtr/rtr.c", "rtrlib/rtr/packets.c", "rtrlib/spki/hashtable/ht-spkitable.c",
    "third-party/tommyds/tommy.c",
]
KERNEL_SRC = ["sim/sim.c", "sim/simalloc.c"]
HARNESS_GLOB_DIR = "harness"

WRAPS = [
    "pthread_create", "pthread_join", "pthread_exit", "pthread_cancel", "pthread_setcancelstate",
    "pthread_rwlock_rdlock", "pthread_rwlock_wrlock", "pthread_rwlock_unlock",
    "pthread_mutex_lock", "pthread_mutex_unlock",
    "pthread_cond_wait", "pthread_cond_timedwait", "pthread_cond_signal", "pthread_cond_broadcast",
    "usleep", "nanosleep",
    "clock_gettime", "sleep", "lrtr_dbg", "free",
    "rtr_sync", "rtr_wait_for_sync",
]

# memory-safety relevant UBSan checks only: the properties speak of invalid memory accesses and
# assertion failures, not of every C undefined behaviour (DESIGN §8 C04).
SAN = {
    "asan": {
        "lib": ["-fsanitize=address,bounds,null", "-fno-sanitize-recover=all"],
        "harness": ["-fsanitize=address"],
        "link": ["-fsanitize=address,undefined"],
    },
    "tsan": {
        "lib": ["-fsanitize=thread"],
        "harness": [],
        "link": ["-fsanitize=thread"],
    },
    "plain": {"lib": [], "harness": [], "link": []},
}

COMMON = ["-g", "-O1", "-fno-omit-frame-pointer", "-DRTR_CONFIG_H", "-w"]


def harness_sources():
    d = os.path.join(VERIF, HARNESS_GLOB_DIR)
    return sorted(os.path.join(HARNESS_GLOB_DIR, f) for f in os.listdir(d) if f.endswith(".cpp"))


def all_inputs():
    files = [os.path.join(REPO, f) for f in LIB_SRC]
    # every header / included .c of the library
    for root in ("rtrlib", "third-party/tommyds"):
        for dp, dn, fn in os.walk(os.path.join(REPO, root)):
            for f in fn:
                if f.endswith((".h", ".c")):
                    files.append(os.path.join(dp, f))
    for dp, dn, fn in os.walk(os.path.join(VERIF, "sim")):
        files += [os.path.join(dp, f) for f in fn]
    for dp, dn, fn in os.walk(os.path.join(VERIF, "harness")):
        files += [os.path.join(dp, f) for f in fn]
    files.append(os.path.abspath(__file__))
    return sorted(set(files))


def input_hash(variant):
    h = hashlib.sha256()
    h.update(variant.encode())
    for f in all_inputs():
        if f.endswith("config.h") and "/rtrlib/config.h" in f:
            continue  # generated, git-ignored, neutralised by -DRTR_CONFIG_H
        try:
            with open(f, "rb") as fh:
                data = fh.read()
        except OSError:
            data = b"<missing>"
        h.update(f.encode() + b"\0" + hashlib.sha256(data).digest())
    return h.hexdigest()[:16]


def run(cmd):
    p = subprocess.run(cmd, stdout=subprocess.PIPE, stderr=subprocess.STDOUT, text=True)
    return p.returncode, p.stdout, cmd


def build(variant="asan", verbose=False):
    """Returns path of the simulator binary for the current trees; raises RuntimeError on failure."""
    hsh = input_hash(variant)
    out = os.path.join(BUILD, "%s-%s" % (variant, hsh))
    binary = os.path.join(out, "simcheck")
    if os.path.exists(binary):
        return binary
    os.makedirs(out, exist_ok=True)
    inc = os.path.join(out, "inc")
    os.makedirs(os.path.join(inc, "rtrlib"), exist_ok=True)
    # config.h may be absent after a fresh restore (git-ignored); contents are neutralised anyway
    for p in (os.path.join(inc, "config.h"), os.path.join(inc, "rtrlib", "config.h")):
        with open(p, "w") as fh:
            fh.write("/* simulator build: BGPsec disabled (DESIGN §9) */\n")
    san = SAN[variant]
    jobs = []
    objs = []
    have = set(os.path.basename(s)[:-4] for s in harness_sources())
    defs = []
    for name, macro in (("scn_spki", "HAVE_SCN_SPKI"), ("scn_conc", "HAVE_SCN_CONC"), ("scn_world", "HAVE_SCN_WORLD")):
        if name in have:
            defs.append("-D" + macro)
    for src in LIB_SRC:
        o = os.path.join(out, "lib_" + src.replace("/", "_")[:-2] + ".o")
        objs.append(o)
        jobs.append(["clang", "-std=gnu99"] + COMMON + san["lib"] + ["-fsanitize-coverage=trace-pc-guard",
                    "-I" + REPO, "-I" + inc, "-c", os.path.join(REPO, src), "-o", o])
    for src in KERNEL_SRC:
        o = os.path.join(out, "k_" + os.path.basename(src)[:-2] + ".o")
        objs.append(o)
        jobs.append(["clang", "-std=gnu11"] + COMMON + ["-I" + REPO, "-I" + inc, "-c", os.path.join(VERIF, src), "-o", o])
    for src in harness_sources():
        o = os.path.join(out, "h_" + os.path.basename(src)[:-4] + ".o")
        objs.append(o)
        jobs.append(["clang++", "-std=c++17"] + COMMON + san["harness"] + defs + ["-DVARIANT_" + variant.upper(),
                    "-I" + REPO, "-I" + inc, "-I" + VERIF, "-c", os.path.join(VERIF, src), "-o", o])
    with concurrent.futures.ThreadPoolExecutor(max_workers=os.cpu_count() or 4) as ex:
        results = list(ex.map(run, jobs))
    for rc, txt, cmd in results:
        if rc != 0:
            shutil.rmtree(out, ignore_errors=True)
            raise RuntimeError("compile failed: %s\n%s" % (" ".join(cmd), txt))
    link = ["clang++"] + san["link"] + objs + ["-o", binary + ".tmp", "-lpthread"]
    link += ["-Wl,--wrap=" + w for w in WRAPS]
    rc, txt, cmd = run(link)
    if rc != 0:
        shutil.rmtree(out, ignore_errors=True)
        raise RuntimeError("link failed: %s\n%s" % (" ".join(cmd), txt))
    os.rename(binary + ".tmp", binary)
    prune(keep=out)
    return binary


def prune(keep, max_dirs=6):
    try:
        dirs = [os.path.join(BUILD, d) for d in os.listdir(BUILD)]
    except OSError:
        return
    dirs = [d for d in dirs if os.path.isdir(d) and d != keep]
    dirs.sort(key=lambda d: os.path.getmtime(d))
    for d in dirs[:-max_dirs] if len(dirs) > max_dirs else []:
        shutil.rmtree(d, ignore_errors=True)


if __name__ == "__main__":
    variants = sys.argv[1:] or ["asan"]
    for v in variants:
        try:
            print(build(v))
        except RuntimeError as e:
            sys.stderr.write(str(e) + "\n")
            sys.exit(2)
